#!/usr/bin/env python3
"""Regenerates MANIFEST.json from the table below (single source of truth for the interface)."""
import json, subprocess

TECH = "deterministic simulation with fault injection (seeded schedules/faults, real code on simulated transport+clock, invariant and history oracles, minimised replay)"

# property -> (claimed?, level category, level text, level note, design ref)
CLAIMED = {
 "C01": ("exploration",
   "Seeded search over executions of 4-9 real nodes on a simulated transport and clock with loss, duplication, reordering, delay, partitions, crashes, stalls and <20%-stake Byzantine voters/leaders; agreement, single-chain and finalized-vs-skip oracles evaluated on every finalization record and certificate on the wire. Sampling, so evidence not proof - the right level for a safety property quantified over schedules and adversaries.",
   "Trusts: tokio's paused clock and current-thread scheduler as the only sources of time/interleaving (hooks H1/H2 remove the others); Byzantine behaviour is limited to the strategy library in sim/src/adv.rs; N<=9.",
   "DESIGN.md §7 C01"),
}
NOT_YET = {}

def main():
    props = [json.loads(l) for l in open("properties.jsonl")]
    na_reasons = json.load(open("not_applicable.json"))
    hooks = subprocess.run(["git","-C","/repo","log","--format=%h %s","--grep=verif-hooks"],capture_output=True,text=True).stdout.strip().splitlines()
    checks=[]; na=[]
    for p in props:
        pid=p["id"]
        if pid in CLAIMED:
            cat,text,note,ref=CLAIMED[pid]
            checks.append({
              "property_id":pid,
              "quick_cmd":f"./check {pid} quick",
              "thorough_cmd":f"./check {pid} thorough",
              "evidence_file":f"/verif/evidence/{pid}.json",
              "replay_cmd_template":f"./check {pid} --replay {{path}}",
              "engine":"agsim",
              "level_claimed":{"category":cat,"text":text,"design_ref":ref},
              "level_note":note,
              "technique":TECH,
            })
        else:
            na.append({"property_id":pid,"reason":na_reasons.get(pid,"check not built yet; see DESIGN.md §7")})
    m={
      "version":1,
      "setup_cmd":"./check build",
      "hooks":{
        "guard":"verif-hooks",
        "enable":"cargo feature `verif-hooks` of the alpenglow crate, enabled by /verif/sim/Cargo.toml (path dependency on /repo)",
        "baseline_off_cmd":"cd /repo && cargo test --workspace --no-fail-fast --offline",
        "source_commits":[h.split()[0] for h in hooks],
        "add_only":True,
      },
      "engines":[{"name":"agsim","path":"/verif/sim","serves_properties":sorted(CLAIMED),"kind_free_text":"deterministic simulator: seeded decision log, simulated transport/clock, fault injector, Byzantine actors, reference-model oracles, ddmin replay minimiser"}],
      "checks":checks,
      "not_applicable":na,
      "notes":"All checks: exit 0 held / 1 VIOLATION (minimised, fresh-process replay verified) / 2 harness error. VERIF_SEED selects the batch seed (default fixed). Known findings: /verif/known_findings.json.",
    }
    json.dump(m,open("MANIFEST.json","w"),indent=1)
    print("claimed:",sorted(CLAIMED),"na:",[x["property_id"] for x in na])
main()
