#!/usr/bin/env python3
"""Regenerates MANIFEST.json from the table below (single source of truth for the interface)."""
import json, subprocess

TECH = "deterministic simulation with fault injection (seeded schedules/faults, real code on simulated transport+clock, invariant and history oracles, minimised replay)"

# property -> (claimed?, level category, level text, level note, design ref)
CLAIMED = {
 "C02": ("exploration",
   "Seeded cluster executions of real nodes with a drawn stabilisation time: before it arbitrary loss/duplication/delay/partitions/stalls/crashes (<20% of stake) and <20%-stake Byzantine validators, after it no loss and delays <= 100 ms. Bounded liveness is then demanded: every live correct node's finalized slot advances within every interval of B = 2*DELTA_STANDSTILL + 4*(DELTA_TIMEOUT+4*DELTA_BLOCK); in windows of correct live leaders that start >= 2 s after stabilisation with all live nodes caught up (and dissemination guaranteed), every proposed block is finalized everywhere and not skipped; in the lockstep configuration (equal stakes, constant latency) every such block gets a fast-finalization certificate. A fault-free variant runs with no relaxation. A solo-node variant checks the node-local form: one real node among validators that all follow the protocol (blocks on the chain, delivered on time or up to 300 ms early; votes on time or up to 500 ms slow) must never cast a skip or fallback vote and must notarize every block within one block time of the instant the block, its previous vote or a ready parent had reached it, and vote to finalize it, unless the others had already finalized the slot. Post-stabilisation delays cover the whole range up to DELTA (250 ms); Byzantine leaders include one that hands the next leader a block nobody else gets.",
   "Liveness is only demanded after stabilisation and only under the measured preconditions listed above; the fast-finalization demand is restricted to the lockstep configuration because with skewed stakes or jitter a 60% coalition can legitimately complete the two-round path first (DESIGN §7 C02). N <= 7.",
   "DESIGN.md §7 C02"),
 "C05": ("exploration",
   "Cluster monitor: in seeded executions with faults, partitions and <20%-stake Byzantine equivocating voters/leaders (several blocks per slot, blocks before parents, delayed certificates), every vote each correct node broadcasts is replayed in broadcast order against the voting rules: never a slashable combination with its own earlier votes, finalize only after notarizing and only for a block with a notarization certificate, fallback votes only after an initial vote and only once the stake they require had been voted anywhere, notar only for a block whose parent is the block notarized in the preceding slot or, in a window's first slot, a certified skip-connected parent. Solo-node world: one real node in a fully scripted adversarial environment (all other validators are puppets; several blocks per slot, children before parents, drawn arrival times of votes and certificates), where the oracle knows exactly what had reached the node at each instant and checks every clause in its per-node causal form.",
   "In the cluster world, conditions that depend on what had reached the node (safe-to-notar/skip held, parent announced ready) are checked in their necessary form against everything on the wire by then (sound, weaker); the exact per-node form is checked only in the solo-node world, whose scripted environments are cut at the instant they leave the <20% premise (pool safety assertion) and ignore slots beyond the scripted horizon; blocks the node may have learnt through repair (puppets answer repair requests with real responders) count as known from the instant the first response about them left a puppet (an earlier bound than the truth).",
   "DESIGN.md §7 C05, §15"),
 "C09": ("exploration",
   "Forged votes and certificates (chains of 1-3 structured mutations of valid messages, signer subsets just below/at/above the thresholds, mixed certificates with a signer in both halves) are offered on the wire to ValidatedVote/ValidatedCert::try_new and compared with an independent verdict (signature bytes equal the honest signature/aggregation of exactly the named signers over exactly this kind/slot/hash; bitmask length; distinct stake vs threshold, ignoring the declared stake); the cluster variant injects the same forgeries at real nodes and validates every certificate a correct node re-broadcasts.",
   "The independent verdict trusts BLS signing and aggregation to be deterministic (they are) but not verification; sampled structured mutation, not all mutations.",
   "DESIGN.md §7 C09, §15"),
 "C10": ("exploration",
   "Cluster executions with hostile generators on all five interfaces (garbage/mutated consensus messages with absurd slots, forged votes/certs, mutated shreds, hostile repair requests and unsolicited responses, oversize/empty/maximal transactions) and a Byzantine leader signing malformed blocks, interleaved with normal traffic: no panic located in the repository's sources in any task of a correct node, and after the hostile phase (variant with stabilisation) every live correct node keeps finalizing within the C02 bound.",
   "Panics are attributed by source location; a task that ends silently without panicking is only noticed through the liveness half. Hostile generators are those of sim/src/hostile.rs and adv.rs. A cluster-faulty variant runs C01's fault schedules (plus partitions that cut off one node for 4-16 s) without hostile inputs: a node task that dies there is a C10 failure too; hostile profiles include a Byzantine leader of the very last leader window. The crate's own receive loops (UdpNetwork, SimulatedNetwork) are exercised by a separate transport variant with hostile datagram scripts; its UdpNetwork half uses real loopback sockets (not schedule-controlled; only timing-independent facts are demanded, skipped if no socket can be bound).",
   "DESIGN.md §7 C10"),
 "C19": ("exploration",
   "Every message kind (votes; certificates for 1..2048 validators incl. both halves and the highest index; shreds of all four shredders at boundary sizes; repair requests/responses with proofs for up to 1024 slices; transactions) is encoded, checked to fit 1500 bytes, round-tripped, rejected with trailing bytes and out-of-range indices, and corrupted at byte level (reject or stable re-encoding, never a panic); arbitrary byte strings go to all five decoders; the same monitor runs on every message real nodes emit in cluster runs.",
   "Sizes of messages a correct node emits are measured on generated instances, not derived symbolically.",
   "DESIGN.md §7 C19"),
 "C11": ("exploration",
   "For all four shredders, slices with boundary-biased payload lengths are shredded and sent through a lossy, reordering, duplicating datagram schedule to a receiver that calls deshred on every arrival: success iff >=32 distinct shreds, bit-exact slice and shreds, regenerated shreds validate, untouched array on error, oversize refused at shred time. This is the thinnest fit of the technique among the claimed properties: beyond loss/reorder/duplication it is seeded input sampling.",
   "Subsets are sampled (which 32..64 shreds, in which order), not enumerated; payload lengths are boundary-biased samples over every residue of the padding scheme.",
   "DESIGN.md §7 C11"),
 "C12": ("exploration",
   "A tamperer on the path between an honest leader and a receiver (the message loop's validation path on a real BlockstoreImpl, with and without cached commitment) applies thirteen structured mutation classes; acceptance is only allowed when every bound field still equals a genuine shred's, and afterwards the genuine shreds must reconstruct the block without the correct leader being flagged. A Byzantine leader's two signed commitments for one slice must be reported in both arrival orders.",
   "The receiver re-states the body of Alpenglow::handle_disseminator_shred in the harness (sim/src/dissem.rs); the real loop is exercised in the cluster world. Mutation operators are the coverage statement, not 'all mutations'.",
   "DESIGN.md §7 C12"),
 "C13": ("exploration",
   "Block shapes (1..K slices, empty to full, optimistic-handover switches) and eight leader-signed malformations are delivered to a real BlockstoreImpl in sampled orders with duplicates: exactly one FirstShred and Block, correct hash/parent, every shred/root/proof served and verifying, leader fast path equal; malformed or equivocating blocks yield exactly one InvalidBlock and no later Block.",
   "K <= 8 slices in quick, 40 in thorough; transactions are compared through the block hash (Merkle binding), not field by field.",
   "DESIGN.md §7 C13"),
 "C14": ("exploration",
   "One real Repair::repair_loop repairs a block from 2-7 peers over the simulated network: real RepairRequestHandlers with/without the block, silent peers and liars (wrong variant, aliased/wrong indices, wrong root, mutated proofs, other block's material, alternative last-flag signing by a Byzantine leader, duplicates, unsolicited answers, delays), with loss/duplication/stragglers until a drawn stabilisation time. Checked: announced/stored data hashes to the requested id, no panic, dissemination data untouched, completion within 30*REPAIR_TIMEOUT after stabilisation while honest holders carry >= 30% of the peers' stake (requests go to 3 stake-weighted peers), honest responder answers verify or NACK.",
   "Runs are capped by delivered events (NACK re-requests can grow geometrically when no peer holds the block); capped runs are counted, not flagged. One block per run.",
   "DESIGN.md §7 C14"),
 "C15": ("exploration",
   "The two real callers of proof verification are driven through the network (repair requester under liars presenting aliased indices, non-last slices as last, mutated proofs: it must never act on a false position), and the verification functions are exercised directly on trees of 1..1024 (4096) leaves incl. powers of two +-1 under eight mutation classes including indices beyond the tree width and proof lengths 0..33.",
   "Tree sizes sampled, not enumerated; second-preimage resistance of SHA-256 is assumed (a mutated proof that verifies is reported, not explained).",
   "DESIGN.md §7 C15"),
 "C16": ("exploration",
   "2..40 independently constructed Rotor (both constructors) / Turbine / Trivial instances on a loss-free recording network with arbitrary delays: every shred a leader sends must reach every other validator, exactly once under Turbine/Trivial and through at most one relay broadcast under Rotor, for drawn validator counts, stakes, fanouts, construction times and call orders (incl. instances switched to another sampler with a warm relay cache). A cluster variant runs real nodes with their real message loops fault-free over links with unequal delays: every shred of every slice must be addressed to every validator.",
   "Cache eviction (2^14 / 2^16 entries) is not reached in bounded runs.",
   "DESIGN.md §7 C16"),
 "C03": ("exploration",
   "Seeded search over arrival orders of validly signed votes (all five kinds, honest-pattern and Byzantine signers, duplicates), received certificates and block registrations fed to one real PoolImpl; after every step every certificate the pool creates is checked against an independent accepted-vote table: created only when and as soon as the threshold is reached, once, with exactly the accepted matching voters as signers, and accepted by ValidatedCert::try_new. The cluster world additionally validates every certificate a correct node broadcasts.",
   "Trusts the memoisation of signature checks (same keys, same messages per process) and the harness' reverse mapping of synthetic block hashes; stake distributions are the five families of sim/src/keys.rs; 3-10 validators.",
   "DESIGN.md §7 C03"),
 "C04": ("fault_enumeration",
   "Every add_vote verdict in the sampled pool histories is compared with an order-free admission table derived from the property statement, and every run completely enumerates all ordered pairs of the five vote kinds x {same, different} block from one validator on fresh slots, so each pairwise conflict/legitimate combination is decided in both arrival orders; longer sequences are sampled.",
   "The pair enumeration is complete for pairs only; triples and longer sequences are sampled. Same trusted base as C03.",
   "DESIGN.md §7 C04"),
 "C06": ("exploration",
   "SafeToNotar/SafeToSkip events of a real PoolImpl are compared after every step of sampled histories with the reference predicate (own initial vote, stake conditions at 20/40/60%, block registered, parent certified by a held notar/notar-fallback/fast-final certificate): never raised otherwise, never twice, and raised in the step where the last condition arrives - whichever of a vote, the own vote, the block or the parent certificate that is.",
   "Blocks whose parent is genesis, slots already decided, and blocks the own validator already voted notar-fallback for are exempt from the 'as soon as' half (stated in DESIGN §7 C06).",
   "DESIGN.md §7 C06"),
 "C07": ("exploration",
   "Protocol-consistent multi-window histories (forks, skips, gaps, fast/slow finalization) are delivered to a real PoolImpl as certificates or the votes forming them plus block registrations in sampled orders with pruning in between; parents_ready, ParentReady events and registered waiters are compared after every step with reference reachability over the certificates held.",
   "One narrow relaxation: pairs that become ready in a step that also reports a finalization need not be announced (the pool announces only the highest-window pair of a finalization event). One waiter per slot (the tracker's contract).",
   "DESIGN.md §7 C07"),
 "C08": ("exploration",
   "Same histories as C07; finalized_slot, the finalization log (hook H5), the pruning watermark, retained slots and SlotOutOfBounds verdicts are compared after every step with the reference 'FastFinal or (Final and Notar), closed under known parent links'. A tripped safety assertion on these consistent histories is reported as a violation.",
   "The history generator is consistent with <20% Byzantine stake by construction (sim/src/kworld.rs); inconsistent histories are out of scope for this check (they are C01's subject).",
   "DESIGN.md §7 C08"),
 "C18": ("exploration",
   "recover_from_standstill() is triggered after sampled prefixes (including the empty one) of vote-level and certificate-level pool histories; the bundle must prove the finalized slot, contain every later certificate held and every own vote for later slots, validate element by element, and bring a fresh pool to the same finalized slot (and, on consistent histories, the same ready parents for the following window).",
   "Prefixes are sampled, not all enumerated. Votor's forwarding is checked by handing the bundle to a real Votor that has seen every event the pool emitted so far (recording All2All, no timers fire); the real standstill loop (hook H1) is checked in a cluster variant: under a long total partition every node must re-broadcast the certificates proving its finalized slot every DELTA_STANDSTILL.",
   "DESIGN.md §7 C18"),
 "C17": ("exploration",
   "Caller-thread simulation: every shipped committee strategy (IID stake-weighted / uniform / Turbine-work, decaying acceptance, partition, Fait-Accompli 1 with both fallbacks, Fait-Accompli 2) is constructed for sampled validator sets (1-40 validators; equal, skewed, whale-under-threshold, exact-threshold, heavy-tail stakes, stakes exactly on j/k seat boundaries, lamport-scale stakes, zero-stake members) and shared by 1-3 real caller threads, each drawing committees from its own seeded random source; the threads are parked at every scheduling point (hook H7 ahead of each acquisition of the sampler's shared rejection counters, call boundaries) and released one at a time by the seeded scheduler, so one seed is one interleaving. Checked per committee: equals what a private instance returns for the same set and random source (a function of set and random source only, whatever other callers do), exactly k members of the set, no zero-stake member, >= floor(f*k) seats under the Fait-Accompli samplers (exact integer arithmetic), <= ceil(max_samples) seats under decaying acceptance; construction and sampling must not panic.",
   "The schedule-dependent part (shared counters of the decaying-acceptance sampler under concurrent callers) is what the simulation decides; the remaining clauses are pure functions of (validator set, random source) and are checked as invariants of the generated workload - sampled validator sets up to 40 validators (not ~2000), not enumerated. Interleavings are explored at the granularity of critical sections of the sampler's only lock. WeightedShuffle (crate-private) is reached only through Turbine in C16.",
   "DESIGN.md §7 C17, §15"),
 "C01": ("exploration",
   "Seeded search over executions of 4-9 real nodes on a simulated transport and clock with loss, duplication, reordering, delay, partitions, crashes, stalls and <20%-stake Byzantine voters/leaders; agreement, single-chain and finalized-vs-skip oracles evaluated on every finalization record and certificate on the wire. Sampling, so evidence not proof - the right level for a safety property quantified over schedules and adversaries.",
   "Trusts: tokio's paused clock and current-thread scheduler as the only sources of time/interleaving (hooks H1/H2 remove the others); Byzantine behaviour is limited to the strategy library in sim/src/adv.rs; N<=9.",
   "DESIGN.md §7 C01"),
}
NOT_YET = {}

def main():
    props = [json.loads(l) for l in open("properties.jsonl")]
    na_reasons = json.load(open("not_applicable.json"))
    hooks = subprocess.run(["git","-C","/repo","log","--format=%h %s","--grep=verif-hooks"],capture_output=True,text=True).stdout.strip().splitlines()
    checks=[]; na=[]
    for p in props:
        pid=p["id"]
        if pid in CLAIMED:
            cat,text,note,ref=CLAIMED[pid]
            checks.append({
              "property_id":pid,
              "quick_cmd":f"./check {pid} quick",
              "thorough_cmd":f"./check {pid} thorough",
              "evidence_file":f"/verif/evidence/{pid}.json",
              "replay_cmd_template":f"./check {pid} --replay {{path}}",
              "engine":"agsim",
              "level_claimed":{"category":cat,"text":text,"design_ref":ref},
              "level_note":note,
              "technique":TECH,
            })
        else:
            na.append({"property_id":pid,"reason":na_reasons.get(pid,"check not built yet; see DESIGN.md §7")})
    m={
      "version":1,
      "setup_cmd":"./check build",
      "hooks":{
        "guard":"verif-hooks",
        "enable":"cargo feature `verif-hooks` of the alpenglow crate, enabled by /verif/sim/Cargo.toml (path dependency on /repo)",
        "baseline_off_cmd":"cd /repo && cargo test --workspace --no-fail-fast --offline",
        "source_commits":[h.split()[0] for h in hooks if not h.split(" ",1)[1].startswith("fix:")],
        "add_only":True,
      },
      "engines":[{"name":"agsim","path":"/verif/sim","serves_properties":sorted(CLAIMED),"kind_free_text":"deterministic simulator: seeded decision log, simulated transport/clock, fault injector, Byzantine actors, reference-model oracles, ddmin replay minimiser"}],
      "checks":checks,
      "not_applicable":na,
      "notes":"All checks: exit 0 held / 1 VIOLATION (minimised, fresh-process replay verified) / 2 harness error. VERIF_SEED selects the batch seed (default fixed). Known findings: /verif/known_findings.json.",
    }
    json.dump(m,open("MANIFEST.json","w"),indent=1)
    print("claimed:",sorted(CLAIMED),"na:",[x["property_id"] for x in na])
main()
