#!/bin/bash
# usage: sweep.sh "<props>" "<seeds>"   (evidence and replays go to a scratch root, not to /verif)
export AGSIM_ROOT=${SWEEP_ROOT:-/tmp/agsim-sweep}
mkdir -p $AGSIM_ROOT/evidence $AGSIM_ROOT/replays
cp "$(dirname "$0")/known_findings.json" $AGSIM_ROOT/
for seed in $2; do for p in $1; do
  out=$(VERIF_SEED=$seed /verif/sim/target/release/agsim check $p quick 2>&1 | grep -E "class=|HARNESS|^runs=" | cut -c1-500)
  echo "seed=$seed $p: $out"
done; done
echo SWEEP-DONE
