#!/bin/bash
# usage: sweep.sh "<props>" "<seeds>"
export AGSIM_ROOT=$PWD
mkdir -p evidence replays
for seed in $2; do for p in $1; do
  out=$(VERIF_SEED=$seed /verif/sim/target/release/agsim check $p quick 2>&1 | grep -E "class=|HARNESS|^runs=" | cut -c1-500)
  echo "seed=$seed $p: $out"
done; done
echo SWEEP-DONE
