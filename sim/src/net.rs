//! `SimNet<S,R>`: the only transport the system under test sees.
//!
//! Byte-level: senders serialise with `wincode::serialize`, receivers decode with the crate's own
//! `alpenglow::network::deserialize`. A single `NetCore` owns the (time, seq)-ordered queue of all
//! five interfaces of all nodes and decides, through the kernel's decision streams, every delay,
//! loss, duplication, corruption, partition hold, crash swallow and receiver stall.

use std::collections::BTreeMap;
use std::marker::PhantomData;
use std::net::SocketAddr;
use std::sync::{Arc, Mutex as StdMutex};
use std::time::Duration;

use alpenglow::network::{Network, NetworkMessageConfig};
use tokio::sync::{Mutex, Notify, mpsc};
use tokio::time::Instant;
use wincode::config::DefaultConfig;
use wincode::{SchemaRead, SchemaWrite};

use crate::kernel;

pub const BASE_PORT: u16 = 1000;
pub const PORTS_PER_NODE: u16 = 10;

#[derive(Clone, Copy, Debug, PartialEq, Eq, PartialOrd, Ord)]
pub enum Iface {
    A2A = 0,
    Dissem = 1,
    RepairReq = 2,
    RepairResp = 3,
    Tx = 4,
}

impl Iface {
    pub fn from_port(port: u16) -> Option<Self> {
        match (port - BASE_PORT) % PORTS_PER_NODE {
            0 => Some(Self::A2A),
            1 => Some(Self::Dissem),
            2 => Some(Self::RepairReq),
            3 => Some(Self::RepairResp),
            4 => Some(Self::Tx),
            _ => None,
        }
    }
    pub fn name(self) -> &'static str {
        match self {
            Self::A2A => "a2a",
            Self::Dissem => "dis",
            Self::RepairReq => "rrq",
            Self::RepairResp => "rrs",
            Self::Tx => "tx",
        }
    }
}

pub fn port_of(node: usize, iface: Iface) -> u16 {
    BASE_PORT + (node as u16) * PORTS_PER_NODE + iface as u16
}

pub fn node_of(port: u16) -> usize {
    ((port - BASE_PORT) / PORTS_PER_NODE) as usize
}

pub fn addr_of(node: usize, iface: Iface) -> SocketAddr {
    alpenglow::network::localhost_ip_sockaddr(port_of(node, iface))
}

#[derive(Clone, Debug)]
pub struct NetCfg {
    pub base_ms: u64,
    pub jitter_ms: u64,
    pub loss_ppm: u64,
    pub dup_ppm: u64,
    pub straggle_ppm: u64,
    pub straggle_max_ms: u64,
    pub corrupt_ppm: u64,
    /// partitioned traffic is held and released at heal (true) or lost (false)
    pub partition_hold: bool,
    /// after this virtual time no loss/dup/straggle/corruption is injected and delays are bounded
    pub stabilise_at_ms: Option<u64>,
    pub post_delay_ms: u64,
    /// extra per-link latency (asymmetric), indexed [from][to]
    pub link_extra_ms: Vec<Vec<u64>>,
    /// loopback (a node's own messages to itself) is reliable unless this is set
    pub lossy_loopback: bool,
}

impl NetCfg {
    pub fn benign(n: usize) -> Self {
        Self {
            base_ms: 5,
            jitter_ms: 20,
            loss_ppm: 0,
            dup_ppm: 0,
            straggle_ppm: 0,
            straggle_max_ms: 0,
            corrupt_ppm: 0,
            partition_hold: false,
            stabilise_at_ms: None,
            post_delay_ms: 100,
            link_extra_ms: vec![vec![0; n]; n],
            lossy_loopback: false,
        }
    }
}

#[derive(Clone, Debug)]
pub struct TapRec {
    pub at_ms: u64,
    pub seq: u64,
    pub from_node: usize,
    pub from_iface: Iface,
    pub to_ports: Vec<u16>,
    pub bytes: Arc<Vec<u8>>,
}

struct Packet {
    to_port: u16,
    from_node: usize,
    bytes: Arc<Vec<u8>>,
}

pub struct NetCore {
    q: BTreeMap<(Instant, u64), Packet>,
    seq: u64,
    endpoints: BTreeMap<u16, mpsc::UnboundedSender<Arc<Vec<u8>>>>,
    pub cfg: NetCfg,
    pub n_nodes: usize,
    pub group: Vec<u8>,
    pub crashed: Vec<bool>,
    /// armed mid-broadcast crashes: per node (message class, matching sends still let through)
    crash_trigger: Vec<Option<(u8, u32)>>,
    pub stalled_until: Vec<Option<Instant>>,
    held: Vec<(u16, usize, Arc<Vec<u8>>)>,
    pub taps: Vec<TapRec>,
    pub tap_enabled: bool,
    pub sent: u64,
    pub delivered: u64,
    /// per-iface delivered counts (reach probes)
    pub delivered_by_iface: [u64; 5],
    /// deliveries per (node, iface) — used by hostile-input non-triviality predicates
    pub notify: Arc<Notify>,
}

pub type SharedNet = Arc<StdMutex<NetCore>>;

impl NetCore {
    pub fn new(n_nodes: usize, cfg: NetCfg) -> SharedNet {
        Arc::new(StdMutex::new(Self {
            q: BTreeMap::new(),
            seq: 0,
            endpoints: BTreeMap::new(),
            cfg,
            n_nodes,
            group: vec![0; n_nodes],
            crashed: vec![false; n_nodes],
            crash_trigger: vec![None; n_nodes],
            stalled_until: vec![None; n_nodes],
            held: Vec::new(),
            taps: Vec::new(),
            tap_enabled: true,
            sent: 0,
            delivered: 0,
            delivered_by_iface: [0; 5],
            notify: Arc::new(Notify::new()),
        }))
    }

    fn stable(&self) -> bool {
        self.cfg.stabilise_at_ms.is_some_and(|t| kernel::now_ms() >= t)
    }

    fn push(&mut self, at: Instant, to_port: u16, from_node: usize, bytes: Arc<Vec<u8>>) {
        self.seq += 1;
        self.q.insert((at, self.seq), Packet { to_port, from_node, bytes });
    }

    /// Decides the fate of one datagram.
    fn enqueue(&mut self, from_port: u16, to_port: u16, bytes: Arc<Vec<u8>>) {
        self.sent += 1;
        let from = node_of(from_port);
        let to = node_of(to_port);
        let now = Instant::now();
        if !self.endpoints.contains_key(&to_port) {
            return;
        }
        if from < self.n_nodes
            && from != to
            && !self.crashed[from]
            && let Some((class, left)) = self.crash_trigger[from]
        {
            let iface = Iface::from_port(from_port);
            let is_class = match class {
                0 => iface == Some(Iface::A2A) && bytes.len() >= 4 && bytes[0] == 0,
                1 => iface == Some(Iface::A2A) && bytes.len() >= 4 && bytes[0] == 1,
                _ => iface == Some(Iface::Dissem),
            };
            if is_class {
                if left == 0 {
                    self.crash_trigger[from] = None;
                    kernel::fault("crash_mid_broadcast");
                    self.crash(from);
                } else {
                    self.crash_trigger[from] = Some((class, left - 1));
                }
            }
        }
        if from < self.n_nodes && self.crashed[from] || to < self.n_nodes && self.crashed[to] {
            kernel::fault("swallowed_by_crash");
            return;
        }
        if from == to && !self.cfg.lossy_loopback {
            self.push(now + Duration::from_millis(1), to_port, from, bytes);
            return;
        }
        if from < self.n_nodes && to < self.n_nodes && self.group[from] != self.group[to] {
            if self.cfg.partition_hold {
                kernel::fault("held_by_partition");
                self.held.push((to_port, from, bytes));
            } else {
                kernel::fault("dropped_by_partition");
            }
            return;
        }
        let stable = self.stable();
        let c = &self.cfg;
        if !stable && kernel::flip("net.loss", c.loss_ppm, 1_000_000) {
            kernel::fault("loss");
            return;
        }
        let extra = c.link_extra_ms.get(from).and_then(|r| r.get(to)).copied().unwrap_or(0);
        let mut d = c.base_ms + kernel::choose("net.jitter", c.jitter_ms + 1) + extra;
        if !stable && kernel::flip("net.straggle", c.straggle_ppm, 1_000_000) {
            d += 1 + kernel::choose("net.straggle_ms", c.straggle_max_ms.max(1));
            kernel::fault("straggler_delay");
        }
        if stable {
            d = if c.post_delay_ms > 100 {
                // the whole range up to the bound, per message (reorders messages as well)
                1 + kernel::choose("net.jitter", c.post_delay_ms)
            } else {
                d.min(c.post_delay_ms)
            };
        }
        let mut bytes = bytes;
        if !stable && kernel::flip("net.corrupt", c.corrupt_ppm, 1_000_000) {
            bytes = Arc::new(corrupt(&bytes));
            kernel::fault("byte_corruption");
        }
        let dup = !stable && kernel::flip("net.dup", c.dup_ppm, 1_000_000);
        self.push(now + Duration::from_millis(d), to_port, from, bytes.clone());
        if dup {
            let d2 = d + 1 + kernel::choose("net.dup_ms", 300);
            kernel::fault("duplication");
            self.push(now + Duration::from_millis(d2), to_port, from, bytes);
        }
    }

    /// Injects a datagram on behalf of a harness actor (adversary, client); goes through the
    /// same fault pipeline unless `direct` is set (then: fixed small delay, no faults).
    pub fn inject(&mut self, from_port: u16, to_port: u16, bytes: Vec<u8>, direct: Option<u64>) {
        let bytes = Arc::new(bytes);
        if self.tap_enabled {
            self.seq += 1;
            self.taps.push(TapRec {
                at_ms: kernel::now_ms(),
                seq: self.seq,
                from_node: node_of(from_port),
                from_iface: Iface::from_port(from_port).unwrap_or(Iface::A2A),
                to_ports: vec![to_port],
                bytes: bytes.clone(),
            });
        }
        match direct {
            Some(ms) => {
                self.sent += 1;
                let to = node_of(to_port);
                if to < self.n_nodes && self.crashed[to] {
                    return;
                }
                if self.endpoints.contains_key(&to_port) {
                    self.push(Instant::now() + Duration::from_millis(ms), to_port, node_of(from_port), bytes);
                }
            }
            None => self.enqueue(from_port, to_port, bytes),
        }
        self.notify.notify_one();
    }

    pub fn set_partition(&mut self, group: Vec<u8>) {
        kernel::event(&format!("partition {group:?}"));
        kernel::fault("partition");
        self.group = group;
    }

    pub fn heal(&mut self) {
        kernel::event("heal");
        kernel::fault("heal");
        for g in &mut self.group {
            *g = 0;
        }
        let held = std::mem::take(&mut self.held);
        let now = Instant::now();
        for (to_port, from, bytes) in held {
            let d = self.cfg.base_ms + kernel::choose("net.jitter", self.cfg.jitter_ms + 1);
            self.push(now + Duration::from_millis(d), to_port, from, bytes);
        }
        self.notify.notify_one();
    }

    /// Arms a crash of `node` in the middle of its next broadcast of the given message class.
    pub fn arm_crash(&mut self, node: usize, class: u8, after_sends: u32) {
        kernel::event(&format!("arm mid-broadcast crash n{node} class {class} after {after_sends} sends"));
        self.crash_trigger[node] = Some((class, after_sends));
    }

    pub fn crash(&mut self, node: usize) {
        kernel::event(&format!("crash n{node}"));
        kernel::fault("crash_stop");
        self.crashed[node] = true;
    }

    pub fn stall(&mut self, node: usize, ms: u64) {
        kernel::event(&format!("stall n{node} {ms}ms"));
        kernel::fault("receiver_stall");
        self.stalled_until[node] = Some(Instant::now() + Duration::from_millis(ms));
    }

    pub fn queue_len(&self) -> usize {
        self.q.len()
    }

    fn deliver_due(&mut self) {
        let now = Instant::now();
        if kernel::capped() {
            // event or wall-clock cap hit: the run is being wound down, nothing is delivered any more
            self.q.clear();
            return;
        }
        loop {
            let Some((&(at, seq), _)) = self.q.first_key_value() else { break };
            if at > now {
                break;
            }
            let pkt = self.q.remove(&(at, seq)).expect("peeked");
            let to = node_of(pkt.to_port);
            if to < self.n_nodes {
                if self.crashed[to] {
                    continue;
                }
                if let Some(until) = self.stalled_until[to] {
                    if until > now {
                        // keep (time, seq) order among postponed packets
                        self.q.insert((until, seq), pkt);
                        continue;
                    }
                    self.stalled_until[to] = None;
                }
            }
            if let Some(tx) = self.endpoints.get(&pkt.to_port) {
                let iface = Iface::from_port(pkt.to_port).unwrap_or(Iface::A2A);
                self.delivered += 1;
                self.delivered_by_iface[iface as usize] += 1;
                kernel::event(&format!(
                    "dlv n{}>n{}.{} len={} s={}",
                    pkt.from_node,
                    to,
                    iface.name(),
                    pkt.bytes.len(),
                    seq
                ));
                let _ = tx.send(pkt.bytes);
            }
        }
    }
}

/// Structured byte-level corruption: bit flip, truncation, extension, or byte overwrite.
pub fn corrupt(bytes: &[u8]) -> Vec<u8> {
    let mut v = bytes.to_vec();
    if v.is_empty() {
        return vec![kernel::choose("net.corrupt_kind", 256) as u8];
    }
    match kernel::choose("net.corrupt_kind", 5) {
        0 => {
            let i = kernel::choose("net.corrupt_pos", v.len() as u64) as usize;
            v[i] ^= 1 << kernel::choose("net.corrupt_bit", 8);
        }
        1 => {
            let keep = kernel::choose("net.corrupt_pos", v.len() as u64) as usize;
            v.truncate(keep);
        }
        2 => {
            let extra = 1 + kernel::choose("net.corrupt_pos", 16) as usize;
            v.extend(std::iter::repeat_n(0xA5u8, extra));
        }
        3 => {
            let i = kernel::choose("net.corrupt_pos", v.len() as u64) as usize;
            v[i] = kernel::choose("net.corrupt_bit", 256) as u8;
        }
        _ => {
            // overwrite an aligned 8-byte little-endian field with a boundary value
            let words = (v.len() / 8).max(1) as u64;
            let i = (kernel::choose("net.corrupt_pos", words) * 8) as usize;
            let val: u64 = match kernel::choose("net.corrupt_bit", 5) {
                0 => 0,
                1 => u64::MAX,
                2 => 1 << 20,
                3 => 2048,
                _ => 64,
            };
            for (k, b) in val.to_le_bytes().iter().enumerate() {
                if i + k < v.len() {
                    v[i + k] = *b;
                }
            }
        }
    }
    v
}

/// The pump: the only place where simulated time meets message delivery.
pub async fn pump(core: SharedNet) {
    kernel::set_task_name("pump");
    let notify = core.lock().unwrap().notify.clone();
    loop {
        let next = { core.lock().unwrap().q.first_key_value().map(|(k, _)| k.0) };
        match next {
            None => notify.notified().await,
            Some(t) => {
                tokio::select! {
                    biased;
                    () = tokio::time::sleep_until(t) => {
                        core.lock().unwrap().deliver_due();
                        crate::oracle::on_pump();
                    }
                    () = notify.notified() => {}
                }
            }
        }
    }
}

pub struct SimNet<S, R> {
    core: SharedNet,
    port: u16,
    rx: Mutex<mpsc::UnboundedReceiver<Arc<Vec<u8>>>>,
    _p: PhantomData<fn(S) -> R>,
}

impl<S, R> SimNet<S, R> {
    pub fn new(core: &SharedNet, port: u16) -> Self {
        let (tx, rx) = mpsc::unbounded_channel();
        core.lock().unwrap().endpoints.insert(port, tx);
        Self { core: core.clone(), port, rx: Mutex::new(rx), _p: PhantomData }
    }

    fn send_bytes(&self, bytes: Vec<u8>, mut to: Vec<SocketAddr>) {
        // destinations are sorted so that HashSet iteration order in callers cannot leak in
        to.sort();
        let bytes = Arc::new(bytes);
        let mut c = self.core.lock().unwrap();
        if c.tap_enabled {
            c.seq += 1;
            let seq = c.seq;
            c.taps.push(TapRec {
                at_ms: kernel::now_ms(),
                seq,
                from_node: node_of(self.port),
                from_iface: Iface::from_port(self.port).unwrap_or(Iface::A2A),
                to_ports: to.iter().map(SocketAddr::port).collect(),
                bytes: bytes.clone(),
            });
        }
        for a in to {
            c.enqueue(self.port, a.port(), bytes.clone());
        }
        c.notify.notify_one();
    }
}

/// Wire monitor (C19 a): every message a node emits must fit one datagram and re-encode stably.
fn wire_monitor<S>(bytes: &[u8], port: u16)
where
    S: SchemaWrite<DefaultConfig, Src = S> + for<'de> SchemaRead<'de, NetworkMessageConfig, Dst = S>,
{
    let iface = Iface::from_port(port).map_or("?", Iface::name);
    kernel::probe("wire_msgs_checked");
    if bytes.len() > alpenglow::network::MTU_BYTES {
        kernel::violation("C19", format!("oversize:{iface}"), format!("{} bytes emitted on {iface}", bytes.len()));
    }
    // round-trip a deterministic sample (every 7th message) to bound cost
    let n = kernel::with(|c| {
        let e = c.probes.entry("wire_msgs_seen").or_insert(0);
        *e += 1;
        *e
    });
    if n % 7 != 0 {
        return;
    }
    match alpenglow::network::deserialize::<S>(bytes) {
        Ok(m) => {
            let again = wincode::serialize(&m).expect("serialize");
            if again != bytes {
                kernel::violation("C19", format!("roundtrip:{iface}"), "decode(encode(m)) re-encodes differently".to_string());
            }
            kernel::probe("wire_roundtrips");
        }
        Err(_) => {
            kernel::violation("C19", format!("undecodable:{iface}"), "own encoding rejected by decoder".to_string());
        }
    }
}

impl<S, R> Network for SimNet<S, R>
where
    S: SchemaWrite<DefaultConfig, Src = S> + for<'de> SchemaRead<'de, NetworkMessageConfig, Dst = S> + Send + Sync,
    R: for<'de> SchemaRead<'de, NetworkMessageConfig, Dst = R> + Send + Sync,
{
    type Send = S;
    type Recv = R;

    async fn send(&self, msg: &S, addr: SocketAddr) -> std::io::Result<()> {
        let bytes = wincode::serialize(msg).expect("serialize");
        wire_monitor::<S>(&bytes, self.port);
        self.send_bytes(bytes, vec![addr]);
        Ok(())
    }

    async fn send_to_many(
        &self,
        msg: &S,
        addrs: impl IntoIterator<Item = SocketAddr> + Send,
    ) -> std::io::Result<()> {
        let addrs: Vec<_> = addrs.into_iter().collect();
        if addrs.is_empty() {
            return Ok(());
        }
        let bytes = wincode::serialize(msg).expect("serialize");
        wire_monitor::<S>(&bytes, self.port);
        self.send_bytes(bytes, addrs);
        Ok(())
    }

    async fn receive(&self) -> std::io::Result<R> {
        loop {
            let Some(buf) = self.rx.lock().await.recv().await else {
                // endpoint closed: park forever (the node is being torn down)
                std::future::pending::<()>().await;
                unreachable!();
            };
            match alpenglow::network::deserialize::<R>(&buf) {
                Ok(m) => return Ok(m),
                Err(_) => {
                    kernel::probe("undecodable_dropped");
                }
            }
        }
    }
}
