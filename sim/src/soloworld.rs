//! W1-solo `node core`: ONE real `Alpenglow` node among validators that are all operated by the
//! harness. The environment is fully adversarial for the node's *local* rules (C05): it delivers any
//! validly signed votes and certificates of the other validators, several blocks per slot, blocks
//! before their parents, certificates early/late, across window boundaries. Because every input
//! reaches the node through one injection point with a known delivery time, the oracle knows exactly
//! what the node had seen when it cast each vote.

use std::collections::{BTreeMap, BTreeSet};
use std::time::Duration;

use std::sync::Arc;

use alpenglow::consensus::{Blockstore, BlockstoreEvent, BlockstoreImpl, Cert, ConsensusMessage, SharedBlockstore, Vote};
use alpenglow::repair::{RepairRequest, RepairRequestHandler, RepairRequestType, RepairResponse};
use alpenglow::shredder::Shred;
use alpenglow::Transaction;
use alpenglow::crypto::merkle::BlockHash;
use alpenglow::types::Slot;
use alpenglow::{BlockId, ValidatorIndex};
use serde_json::json;

use crate::cluster::{DissemKind, register_puppet, spawn_node};
use crate::kernel;
use crate::keys;
use crate::model::{self, Blk, CK, CertView, SlotModel, VK, Verdict};
use crate::net::{Iface, NetCfg, NetCore, SharedNet, SimNet, port_of, pump};
use crate::props::WorldOutcome;
use crate::wire;

const E: &str = "env";

#[derive(Clone, Debug)]
enum In {
    Vote { v: usize, kind: VK, slot: u64, tag: u64 },
    Cert { ck: CK, slot: u64, tag: u64 },
    Block { b: Blk, parent: Blk },
}

struct Delivery {
    at_ms: u64,
    what: In,
}

fn vote_of(v: usize, kind: VK, slot: u64, hash: Option<&BlockHash>) -> Vote {
    let kp = keys::keypair(v);
    let me = ValidatorIndex::new(v as u64);
    let s = Slot::new(slot);
    match kind {
        VK::Notar => Vote::new_notar(s, hash.expect("hash").clone(), &kp.vsk, me),
        VK::NotarFallback => Vote::new_notar_fallback(s, hash.expect("hash").clone(), &kp.vsk, me),
        VK::Skip => Vote::new_skip(s, &kp.vsk, me),
        VK::SkipFallback => Vote::new_skip_fallback(s, &kp.vsk, me),
        VK::Final => Vote::new_final(s, &kp.vsk, me),
    }
}

pub fn run(max_windows: u64, honest: bool) -> WorldOutcome {
    // 5..=7 (honest mode: up to 11, so that crashed + Byzantine validators fit their budgets while the
    // node's finalize vote is still needed); node 4 is the real one and never leads
    let n = 5 + kernel::choose(E, if honest { 7 } else { 3 }) as usize;
    let real = 4usize;
    let windows = 1 + kernel::choose(E, max_windows.min(3)); // windows 0..=windows are led by validators 0..=3
    let (mut stakes, stake_kind) = keys::draw_stakes(n, E);
    // the puppets must be able to form certificates without the real node
    let total: u64 = stakes.iter().sum();
    if (total - stakes[real]) * 5 < total * 4 {
        stakes[real] = 1.max(stakes[real].min(total / 8));
    }
    let total: u64 = stakes.iter().sum();
    let tokio_seed = kernel::choose(E, 1 << 30);
    let rt = tokio::runtime::Builder::new_current_thread()
        .enable_time()
        .start_paused(true)
        .rng_seed(tokio::runtime::RngSeed::from_bytes(&tokio_seed.to_le_bytes()))
        .build()
        .expect("rt");
    let stakes2 = stakes.clone();
    let (deliveries, hashes, own_votes, own_certs, virt, mixed_slots) = rt.block_on(async move {
        kernel::set_t0();
        let stakes = stakes2;
        let vals = keys::validator_infos(&stakes);
        let net: SharedNet = NetCore::new(n, NetCfg::benign(n));
        tokio::spawn(pump(net.clone()));
        let mut keep = Vec::new();
        let mut handle = None;
        handle = Some(spawn_node(real, &vals, &stakes, &net, DissemKind::Trivial)).or(handle);
        let answer_repairs = kernel::choose(E, 4) != 0;
        for i in 0..n {
            if i != real && !answer_repairs {
                keep.push(register_puppet(i, &net));
            }
        }
        let validators = keys::epoch(&stakes).validators().to_vec();
        let mut deliveries: Vec<Delivery> = Vec::new();
        let mut hashes: BTreeMap<Blk, BlockHash> = BTreeMap::new();
        hashes.insert((0, 0), alpenglow::crypto::merkle::GENESIS_BLOCK_HASH);
        // ---- the script: a list of (inject time, input) drawn up front
        let last_slot = windows * 4 + 3;
        let mut script: Vec<(u64, In)> = Vec::new();
        let mut blocks_by_slot: BTreeMap<u64, Vec<(Blk, Blk)>> = BTreeMap::new();
        let mut chain_tip: Blk = (0, 0);
        let mut built: BTreeMap<Blk, wire::BuiltBlock> = BTreeMap::new();
        // calm environments follow the protocol (one block per slot on the chain, everybody votes on
        // time) except in contested slots, so that the node is on the happy path when trouble starts
        let calm = honest || kernel::choose(E, 3) == 1;
        // in the honest environment some validators' votes are slow (still within the delay bound of
        // the slot's other traffic), so that blocks overtake the certificates of their parents
        let slow_voters: Vec<bool> = (0..n).map(|_| honest && kernel::choose(E, 2) == 1).collect();
        if calm {
            kernel::fault("calm_environment_with_contested_slots");
        }
        // honest mode, half of the runs: the node's votes are *needed*. Some validators are crashed
        // (silent) and one votes notar but never final (both inside the fault budget of C02: < 40 % of
        // stake in total), such that blocks get notarized without the node but are only finalized
        // with its finalize vote, on the two-round path.
        // role per puppet: 0 = votes notar and final, 1 = notar only, 2 = silent
        let mut vote_role: Vec<u8> = vec![0; n];
        if honest && kernel::choose(E, 2) == 1 {
            let mut order: Vec<usize> = (0..n).filter(|i| *i != real).collect();
            for i in (1..order.len()).rev() {
                let j = i - kernel::choose(E, (i + 1) as u64) as usize;
                order.swap(i, j);
            }
            let mut full = 0u64;
            let mut notar = 0u64;
            let mut role = vec![2u8; n];
            for v in order {
                if (full + stakes[v]) * 5 < total * 3 {
                    role[v] = 0;
                    full += stakes[v];
                    notar += stakes[v];
                } else if notar * 5 < total * 3 {
                    role[v] = 1;
                    notar += stakes[v];
                }
            }
            let silent: u64 = (0..n).filter(|i| *i != real && role[*i] == 2).map(|i| stakes[i]).sum();
            let notar_only: u64 = (0..n).filter(|i| *i != real && role[*i] == 1).map(|i| stakes[i]).sum();
            // feasible: notarization without the node, finalization only with it, faults within budget
            // ... and no fast finalization either (notar stake incl. the node's stays below 80 %)
            if notar * 5 >= total * 3
                && (full + stakes[real]) * 5 >= total * 3
                && full * 5 < total * 3
                && (notar + stakes[real]) * 5 < total * 4
                && silent * 5 < total * 2
                && notar_only * 5 < total
            {
                vote_role = role;
                vote_role[real] = 0;
                kernel::fault("honest_environment_needs_the_nodes_votes");
            }
        }
        let mut mixed_slots: BTreeSet<u64> = BTreeSet::new();
        for s in 1..=last_slot {
            let t_s = 300 + 450 * s;
            let leader = ((s / 4) % n as u64) as usize;
            let nblocks = if honest {
                1
            } else if calm {
                [1u64, 1, 1, 2][kernel::choose(E, 4) as usize]
            } else {
                [1u64, 1, 1, 2, 0][kernel::choose(E, 5) as usize]
            };
            // a *contested* slot: the leader equivocates, the node gets the first block by dissemination,
            // a large minority notarizes the second one early, the first one's certificate comes late
            let contested = nblocks == 2 && chain_tip != (0, 0) && chain_tip.0 < s && (calm || kernel::choose(E, 2) == 1);
            if contested {
                kernel::fault("contested_slot_scripted");
                kernel::event(&format!("contested slot {s} (parent {chain_tip:?})"));
                let kp = keys::keypair(leader);
                let pid: BlockId = (Slot::new(chain_tip.0), hashes[&chain_tip].clone());
                for t in 1..=2u64 {
                    let blk = wire::simple_block(Slot::new(s), pid.clone(), 1, 0xC05 + s * 10 + t, &kp.sk);
                    hashes.insert((s, t), blk.hash.clone());
                    built.insert((s, t), blk);
                    blocks_by_slot.entry(s).or_default().push(((s, t), chain_tip));
                }
                script.push((t_s + kernel::choose(E, 100), In::Block { b: (s, 1), parent: chain_tip }));
                // the parent is certified in time
                script.push((t_s.saturating_sub(200), In::Cert { ck: CK::NotarFallback, slot: chain_tip.0, tag: chain_tip.1 }));
                let mut order: Vec<usize> = (0..n).filter(|i| *i != real).collect();
                for i in (1..order.len()).rev() {
                    let j = i - kernel::choose(E, (i + 1) as u64) as usize;
                    order.swap(i, j);
                }
                let mut minority = 0u64;
                for v in order {
                    if minority * 5 < total * 2 {
                        minority += stakes[v];
                        script.push((t_s + 100 + kernel::choose(E, 300), In::Vote { v, kind: VK::Notar, slot: s, tag: 2 }));
                    } else {
                        script.push((t_s + 100 + kernel::choose(E, 1100), In::Vote { v, kind: VK::Notar, slot: s, tag: 1 }));
                    }
                }
                script.push((t_s + 700 + kernel::choose(E, 1500), In::Cert { ck: CK::Notar, slot: s, tag: 1 }));
                if calm || kernel::choose(E, 2) == 1 {
                    chain_tip = (s, 1);
                }
                continue;
            }
            // honest mode: a *mixed* last slot of a window. Most validators time out and vote skip, then
            // notar-fallback once the block turns out to be safe to notarize (all legitimate), so the
            // slot ends up with a skip certificate AND a notar-fallback certificate: the next window has
            // two ready parents, announced one after the other, and its first block (built on this
            // slot's block, delivered early) is already waiting when the first of them is announced.
            let mixed_prev = honest && s % 4 == 0 && mixed_slots.contains(&(s - 1));
            let mixed = honest
                && s % 4 == 3
                && s < last_slot
                && chain_tip.0 + 1 == s
                && vote_role.iter().all(|r| *r == 0)
                && kernel::choose(E, 3) == 1;
            if mixed {
                mixed_slots.insert(s);
                kernel::fault("mixed_slot_skip_and_notar_fallback_certified");
                let kp = keys::keypair(leader);
                let pid: BlockId = (Slot::new(chain_tip.0), hashes[&chain_tip].clone());
                let blk = wire::simple_block(Slot::new(s), pid, 1, 0xC05 + s * 10 + 1, &kp.sk);
                hashes.insert((s, 1), blk.hash.clone());
                built.insert((s, 1), blk);
                blocks_by_slot.entry(s).or_default().push(((s, 1), chain_tip));
                script.push((t_s + kernel::choose(E, 100), In::Block { b: (s, 1), parent: chain_tip }));
                chain_tip = (s, 1);
                // the smallest drawn set of puppets holding >= 60 % skips (and later falls back); the rest notarize
                let mut order: Vec<usize> = (0..n).filter(|i| *i != real).collect();
                for i in (1..order.len()).rev() {
                    let j = i - kernel::choose(E, (i + 1) as u64) as usize;
                    order.swap(i, j);
                }
                let mut skipping = 0u64;
                for v in order {
                    if skipping * 5 < total * 3 {
                        skipping += stakes[v];
                        script.push((t_s + 300 + kernel::choose(E, 150), In::Vote { v, kind: VK::Skip, slot: s, tag: 0 }));
                        script.push((t_s + 650 + kernel::choose(E, 150), In::Vote { v, kind: VK::NotarFallback, slot: s, tag: 1 }));
                    } else {
                        script.push((t_s + 50 + kernel::choose(E, 200), In::Vote { v, kind: VK::Notar, slot: s, tag: 1 }));
                    }
                }
                continue;
            }
            if calm {
                let kp = keys::keypair(leader);
                let pid: BlockId = (Slot::new(chain_tip.0), hashes[&chain_tip].clone());
                let blk = wire::simple_block(Slot::new(s), pid, 1, 0xC05 + s * 10 + 1, &kp.sk);
                hashes.insert((s, 1), blk.hash.clone());
                built.insert((s, 1), blk);
                blocks_by_slot.entry(s).or_default().push(((s, 1), chain_tip));
                // an eager leader's block can arrive well before its nominal time (honest mode only)
                // ... or late enough for the others' notar votes to overtake it (well inside the node's timeouts)
                // Late blocks only where nobody can finalize a slot without the node's vote: otherwise the
                // others finalize the slot before the block arrives, the node (correctly) casts no notar
                // vote there, therefore none in the next slot either, and ends up skipping - a lagging
                // node's legitimate behaviour, not the environment this oracle is about.
                let needed = vote_role.iter().any(|r| *r != 0);
                let (early, late) = match if mixed_prev { 1 } else if honest { kernel::choose(E, 3) } else { 0 } {
                    1 => (150 + kernel::choose(E, 150), 0),
                    // (not in a window's first slot: a block later than DELTA_TIMEOUT after the ready
                    // parent legitimately triggers the crashed-leader timeout)
                    2 if needed && s % 4 != 0 => (0, 150 + kernel::choose(E, 250)),
                    _ => (0, 0),
                };
                script.push((t_s - early + late + kernel::choose(E, 100), In::Block { b: (s, 1), parent: chain_tip }));
                chain_tip = (s, 1);
                for v in 0..n {
                    if v == real {
                        continue;
                    }
                    // (when the block is late nobody's vote is: the votes overtake the block)
                    let slow = if slow_voters[v] && late == 0 { 250 + kernel::choose(E, 250) } else { 0 };
                    if vote_role[v] <= 1 {
                        script.push((t_s + 50 + slow + kernel::choose(E, 200), In::Vote { v, kind: VK::Notar, slot: s, tag: 1 }));
                    }
                    if vote_role[v] == 0 {
                        script.push((t_s + 300 + slow + kernel::choose(E, 200), In::Vote { v, kind: VK::Final, slot: s, tag: 0 }));
                    }
                }
                continue;
            }
            for t in 1..=nblocks {
                // parent: the chain tip (proper), or some other earlier block / genesis (possibly improper)
                let parent = match kernel::choose(E, 5) {
                    0 | 1 | 2 => chain_tip,
                    3 => (0, 0),
                    _ => {
                        let prior: Vec<Blk> = built.keys().copied().filter(|b| b.0 < s).collect();
                        if prior.is_empty() { (0, 0) } else { prior[kernel::choose(E, prior.len() as u64) as usize] }
                    }
                };
                let kp = keys::keypair(leader);
                let pid: BlockId = (Slot::new(parent.0), hashes[&parent].clone());
                let blk = wire::simple_block(Slot::new(s), pid, 1 + kernel::choose(E, 2) as usize, 0xC05 + s * 10 + t, &kp.sk);
                hashes.insert((s, t), blk.hash.clone());
                built.insert((s, t), blk);
                blocks_by_slot.entry(s).or_default().push(((s, t), parent));
                // delivered early, on time, late, or (rarely) never
                let when = match kernel::choose(E, 6) {
                    0 => t_s.saturating_sub(200),
                    1 | 2 | 3 => t_s + kernel::choose(E, 150),
                    4 => t_s + 600 + kernel::choose(E, 1500),
                    _ => u64::MAX,
                };
                if when != u64::MAX {
                    script.push((when, In::Block { b: (s, t), parent }));
                }
            }
            if nblocks >= 1 && kernel::choose(E, 4) != 0 {
                chain_tip = (s, 1);
            }
            // votes of the puppets for this slot
            for v in 0..n {
                if v == real {
                    continue;
                }
                let mut kinds: Vec<(VK, u64)> = Vec::new();
                match kernel::choose(E, 7) {
                    0 => {}
                    1 => kinds.push((VK::Skip, 0)),
                    2 => {
                        kinds.push((VK::Skip, 0));
                        if nblocks >= 1 {
                            kinds.push((VK::NotarFallback, 1));
                        }
                    }
                    6 => {
                        // Byzantine: everything at once
                        if nblocks >= 1 {
                            kinds.push((VK::Notar, 1));
                            kinds.push((VK::NotarFallback, nblocks));
                        }
                        kinds.push((VK::Skip, 0));
                        kinds.push((VK::Final, 0));
                    }
                    _ => {
                        if nblocks >= 1 {
                            let t = 1 + kernel::choose(E, nblocks);
                            kinds.push((VK::Notar, t));
                            match kernel::choose(E, 4) {
                                0 => kinds.push((VK::Final, 0)),
                                1 => kinds.push((VK::SkipFallback, 0)),
                                _ => {}
                            }
                        } else {
                            kinds.push((VK::Skip, 0));
                        }
                    }
                }
                for (k, t) in kinds {
                    let when = t_s.saturating_sub(100) + kernel::choose(E, 1200);
                    script.push((when, In::Vote { v, kind: k, slot: s, tag: t }));
                }
            }
            // certificates the puppets can form on their own, delivered at arbitrary times
            for (ck, tag) in [(CK::Notar, 1u64), (CK::NotarFallback, 1), (CK::NotarFallback, 2), (CK::Skip, 0), (CK::FastFinal, 1), (CK::Final, 0)] {
                if kernel::choose(E, 4) != 0 {
                    continue;
                }
                if tag > nblocks && !matches!(ck, CK::Skip | CK::Final) {
                    continue;
                }
                let when = t_s.saturating_sub(300) + kernel::choose(E, 2500);
                script.push((when, In::Cert { ck, slot: s, tag }));
            }
        }
        script.sort_by_key(|x| x.0);
        kernel::event(&format!("solo n={n} stakes={stakes:?} windows={windows} script={} repairs_answered={answer_repairs}", script.len()));
        if answer_repairs {
            // the puppets answer repair requests with real responders: two block stores, one holding the
            // first block of every slot, the other the second (where a slot has two), shared by the
            // even and the odd puppets -- so a block the node never got from dissemination (e.g. the
            // other block of an equivocating leader) can still become known to its pool
            let mut stores: Vec<SharedBlockstore> = Vec::new();
            for variant in 1..=2u64 {
                let (tx, mut rx) = tokio::sync::mpsc::channel::<BlockstoreEvent>(100_000);
                tokio::spawn(async move { while rx.recv().await.is_some() {} });
                let mut bsi = BlockstoreImpl::new(tx);
                for (b, blk) in &built {
                    let want = if blocks_by_slot.get(&b.0).map_or(0, Vec::len) >= 2 { variant } else { 1 };
                    if b.1 != want {
                        continue;
                    }
                    for slice in &blk.shreds {
                        for sh in slice {
                            let _ = bsi.add_shred_from_dissemination(sh.clone()).await;
                        }
                    }
                }
                stores.push(Arc::new(tokio::sync::RwLock::new(bsi)));
            }
            for i in 0..n {
                if i == real {
                    continue;
                }
                let mut k: Vec<Box<dyn std::any::Any>> = Vec::new();
                k.push(Box::new(SimNet::<ConsensusMessage, ConsensusMessage>::new(&net, port_of(i, Iface::A2A))));
                k.push(Box::new(SimNet::<Shred, Shred>::new(&net, port_of(i, Iface::Dissem))));
                k.push(Box::new(SimNet::<RepairRequest, RepairResponse>::new(&net, port_of(i, Iface::RepairReq))));
                k.push(Box::new(SimNet::<Transaction, Transaction>::new(&net, port_of(i, Iface::Tx))));
                keep.push(k);
                let rp = SimNet::<RepairResponse, RepairRequest>::new(&net, port_of(i, Iface::RepairResp));
                let handler = RepairRequestHandler::new(keys::vepoch(i, &stakes), stores[i % 2].clone(), rp);
                tokio::spawn(async move {
                    kernel::set_task_name("puppet-repair-responder");
                    handler.run().await;
                });
            }
            kernel::fault("puppets_answer_repair_requests");
        }

        // ---- play the script
        let src = n + 3;
        let duration = 300 + 450 * last_slot + 4_000;
        let mut idx = 0;
        let mut now = 0u64;
        while now < duration {
            tokio::time::sleep(Duration::from_millis(10)).await;
            now += 10;
            while idx < script.len() && script[idx].0 <= now {
                let (_, what) = &script[idx];
                idx += 1;
                let deliver_at = kernel::now_ms() + 1;
                match what {
                    In::Vote { v, kind, slot, tag } => {
                        let hash = if matches!(kind, VK::Notar | VK::NotarFallback) { hashes.get(&(*slot, *tag)) } else { None };
                        if matches!(kind, VK::Notar | VK::NotarFallback) && hash.is_none() {
                            continue;
                        }
                        let bytes = wincode::serialize(&ConsensusMessage::Vote(vote_of(*v, *kind, *slot, hash))).expect("ser");
                        net.lock().unwrap().inject(port_of(*v, Iface::A2A), port_of(real, Iface::A2A), bytes, Some(1));
                    }
                    In::Cert { ck, slot, tag } => {
                        let hash = hashes.get(&(*slot, *tag)).cloned().unwrap_or_else(|| wire::synth_hash(0, 0));
                        if !matches!(ck, CK::Skip | CK::Final) && !hashes.contains_key(&(*slot, *tag)) {
                            continue;
                        }
                        // a random sufficient subset of the puppets
                        let frac: u64 = if *ck == CK::FastFinal { 4 } else { 3 };
                        let mut set: Vec<usize> = Vec::new();
                        let mut sum = 0u64;
                        let mut order: Vec<usize> = (0..n).filter(|i| *i != real).collect();
                        for i in (1..order.len()).rev() {
                            let j = i - kernel::choose(E, (i + 1) as u64) as usize;
                            order.swap(i, j);
                        }
                        for v in order {
                            if u128::from(sum) * 5 >= u128::from(total) * u128::from(frac) {
                                break;
                            }
                            set.push(v);
                            sum += stakes[v];
                        }
                        if u128::from(sum) * 5 < u128::from(total) * u128::from(frac) {
                            continue;
                        }
                        set.sort_unstable();
                        let Some(cert) = crate::wireworld::honest_cert(*ck, *slot, &hash, &set, &[], &validators) else { continue };
                        let bytes = wincode::serialize(&ConsensusMessage::Cert(cert)).expect("ser");
                        net.lock().unwrap().inject(port_of(src, Iface::A2A), port_of(real, Iface::A2A), bytes, Some(1));
                    }
                    In::Block { b, .. } => {
                        let blk = &built[b];
                        let leader = ((b.0 / 4) % n as u64) as usize;
                        let mut c = net.lock().unwrap();
                        for slice in &blk.shreds {
                            for s in slice {
                                c.inject(port_of(leader, Iface::Dissem), port_of(real, Iface::Dissem), wire::shred_bytes(s.as_shred()), Some(1));
                            }
                        }
                    }
                }
                deliveries.push(Delivery { at_ms: deliver_at, what: what.clone() });
            }
            if kernel::capped() {
                break;
            }
        }
        // ---- collect what the real node broadcast
        let mut own_votes: Vec<(u64, u64, VK, u64, Option<BlockHash>)> = Vec::new();
        let mut own_certs: Vec<(u64, CK, u64, Option<BlockHash>)> = Vec::new();
        // blocks the node may have learnt through repair: known (at the earliest) when the first
        // response about them left a puppet
        let mut repaired: Vec<(u64, BlockId)> = Vec::new();
        for rec in net.lock().unwrap().taps.iter() {
            if rec.from_node != real && rec.from_iface == Iface::RepairResp {
                if let Ok(resp) = alpenglow::network::deserialize::<RepairResponse>(&rec.bytes) {
                    let rt = match &resp {
                        RepairResponse::Nack(_) => None,
                        RepairResponse::LastSliceRoot(rt, ..) | RepairResponse::SliceRoot(rt, ..) | RepairResponse::Shred(rt, ..) => Some(rt),
                    };
                    if let Some(rt) = rt {
                        let bid = match rt {
                            RepairRequestType::LastSliceRoot(b) | RepairRequestType::SliceRoot(b, _) | RepairRequestType::Shred(b, _, _) => b.clone(),
                        };
                        if !repaired.iter().any(|(_, b)| *b == bid) {
                            repaired.push((rec.at_ms, bid));
                        }
                    }
                }
                continue;
            }
            if rec.from_node != real || rec.from_iface != Iface::A2A {
                continue;
            }
            match alpenglow::network::deserialize::<ConsensusMessage>(&rec.bytes) {
                Ok(ConsensusMessage::Vote(v)) => {
                    let kind = match &v {
                        Vote::Notar(_) => VK::Notar,
                        Vote::NotarFallback(_) => VK::NotarFallback,
                        Vote::Skip(_) => VK::Skip,
                        Vote::SkipFallback(_) => VK::SkipFallback,
                        Vote::Final(_) => VK::Final,
                    };
                    if v.signer().as_usize() != real {
                        kernel::violation("C05", "vote-with-foreign-index", format!("the node broadcast a vote naming validator {}", v.signer()));
                    }
                    if !v.check_sig(&keys::keypair(real).vpk) {
                        kernel::violation("C05", "vote-not-signed-with-own-key", "the node broadcast a vote that does not verify under its own key".to_string());
                    }
                    own_votes.push((rec.at_ms, rec.seq, kind, v.slot().inner(), v.block_hash().cloned()));
                }
                Ok(ConsensusMessage::Cert(c)) => {
                    own_certs.push((rec.at_ms, crate::poolworld::ck_of(&c), c.slot().inner(), c.block_hash().cloned()));
                }
                Err(_) => {}
            }
        }
        if let Some(h) = handle {
            h.cancel.cancel();
        }
        let _ = keep;
        // repaired blocks enter the oracle's knowledge as deliveries of the block at that time
        for (at, bid) in repaired {
            if let Some((b, _)) = hashes.iter().find(|(b, h)| b.0 == bid.0.inner() && **h == bid.1)
                && let Some(parent) = blocks_by_slot.get(&b.0).and_then(|v| v.iter().find(|(x, _)| x == b)).map(|(_, p)| *p)
            {
                kernel::probe("solo_block_possibly_learnt_by_repair");
                deliveries.push(Delivery { at_ms: at, what: In::Block { b: *b, parent } });
            }
        }
        (deliveries, hashes, own_votes, own_certs, kernel::now_ms(), mixed_slots)
    });
    drop(rt);
    let last_slot = windows * 4 + 3;
    // The environment is not bound by the <20% premise (the rules under test are local), so it can
    // make the node's pool trip a consensus-safety assertion; the node is then no longer a running
    // correct node and its later behaviour is not evaluated.
    let cutoff = {
        let ps = kernel::take_panics();
        let t = ps.iter().filter(|p| p.message.contains("consensus safety violation")).map(|p| p.virt_ms).min();
        for p in ps.iter().filter(|p| !p.message.contains("consensus safety violation")) {
            if kernel::panic_in_repo(&p) {
                kernel::violation("C10", format!("panic:{}", p.location.rsplit('/').next().unwrap_or("")), format!("panic in the solo node: {} @ {}", p.message, p.location));
            }
        }
        if t.is_some() {
            kernel::probe("solo_runs_cut_at_safety_assert");
        }
        t.unwrap_or(u64::MAX)
    };

    // =============================== the oracle ===============================
    let tag_of = |slot: u64, h: &BlockHash| -> Option<u64> { hashes.iter().find(|(b, hh)| b.0 == slot && *hh == h).map(|(b, _)| b.1) };
    let mut own: BTreeMap<u64, model::ValVotes> = BTreeMap::new();
    let mut fallback_votes = 0;
    let mut final_votes = 0;
    let mut notar_votes = 0;
    // knowledge at time t
    let knowledge = |t: u64| -> (CertView, BTreeMap<u64, SlotModel>, BTreeMap<Blk, Blk>) {
        let mut view = CertView::default();
        let mut models: BTreeMap<u64, SlotModel> = BTreeMap::new();
        let mut blocks: BTreeMap<Blk, Blk> = BTreeMap::new();
        let mut add_cert = |view: &mut CertView, ck: CK, slot: u64, tag: u64| match ck {
            CK::Notar => {
                view.notar.entry(slot).or_insert(tag);
            }
            CK::NotarFallback => {
                view.nf.entry(slot).or_default().insert(tag);
            }
            CK::FastFinal => {
                view.ff.entry(slot).or_insert(tag);
            }
            CK::Final => {
                view.fin.insert(slot);
            }
            CK::Skip => {
                view.skip.insert(slot);
            }
        };
        for d in deliveries.iter().filter(|d| d.at_ms <= t) {
            match &d.what {
                In::Cert { ck, slot, tag } => add_cert(&mut view, *ck, *slot, *tag),
                In::Block { b, parent } => {
                    blocks.insert(*b, *parent);
                    view.parents.insert(*b, *parent);
                }
                In::Vote { v, kind, slot, tag } => {
                    let m = models.entry(*slot).or_insert_with(|| SlotModel::new(n));
                    if model::expected_verdict(&m.vals[*v], *kind, *tag) == Verdict::Ok {
                        model::apply_vote(&mut m.vals[*v], *kind, *tag);
                    }
                }
            }
        }
        for (at, ck, slot, h) in &own_certs {
            if *at <= t {
                let tag = h.as_ref().and_then(|h| tag_of(*slot, h)).unwrap_or(0);
                add_cert(&mut view, *ck, *slot, tag);
            }
        }
        // the node's own earlier votes have looped back into its pool one millisecond after being cast
        for (at, _, kind, slot, hash) in &own_votes {
            if *at + 1 <= t {
                let tag = hash.as_ref().and_then(|h| tag_of(*slot, h)).unwrap_or(0);
                let m = models.entry(*slot).or_insert_with(|| SlotModel::new(n));
                if model::expected_verdict(&m.vals[real], *kind, tag) == Verdict::Ok {
                    model::apply_vote(&mut m.vals[real], *kind, tag);
                }
            }
        }
        // certificates the pool forms itself from the votes it accepted (it does not necessarily
        // broadcast them: Votor drops CertCreated events for slots below its pruning point)
        for (slot, m) in &models {
            for tag in m.all_tags() {
                for ck in [CK::Notar, CK::NotarFallback, CK::FastFinal] {
                    if model::threshold_reached(m, &stakes, ck, tag) {
                        add_cert(&mut view, ck, *slot, tag);
                    }
                }
            }
            for ck in [CK::Skip, CK::Final] {
                if model::threshold_reached(m, &stakes, ck, 0) {
                    add_cert(&mut view, ck, *slot, 0);
                }
            }
        }
        (view, models, blocks)
    };
    for (at, _seq, kind, slot, hash) in &own_votes {
        if *at >= cutoff || *slot > last_slot {
            // after a safety assertion fired, or beyond the scripted horizon (where the node leads itself)
            continue;
        }
        let tag = match hash {
            Some(h) => match tag_of(*slot, h) {
                Some(t) => t,
                None => {
                    kernel::violation("C05", "vote-for-unknown-block", format!("the node voted {kind:?} in slot {slot} for a block nobody produced"));
                    continue;
                }
            },
            None => 0,
        };
        let st = own.entry(*slot).or_default();
        match model::expected_verdict(st, *kind, tag) {
            Verdict::Slashable(o) => {
                kernel::violation("C05", format!("own-votes-slashable:{kind:?}"), format!("the node broadcast {kind:?} in slot {slot} after {st:?}: {o:?}"));
                continue;
            }
            Verdict::Duplicate => continue, // standstill re-broadcast
            Verdict::Ok => {}
        }
        // the node's own earlier votes are part of what its pool counts
        let (view, mut models, blocks) = knowledge(*at);
        {
            let m = models.entry(*slot).or_insert_with(|| SlotModel::new(n));
            m.vals[real] = st.clone();
        }
        let fin = view.finality();
        match kind {
            VK::Notar => {
                notar_votes += 1;
                let b: Blk = (*slot, tag);
                match blocks.get(&b) {
                    None => kernel::violation("C05", "notar-before-block", format!("the node notarized {b:?} at {at} ms before the block had been delivered to it")),
                    Some(parent) => {
                        if slot % 4 == 0 {
                            let ready = view.ready_parents(&fin, *slot);
                            if !ready.contains(parent) {
                                kernel::violation(
                                    "C05",
                                    "notar-with-unready-parent",
                                    format!(
                                        "the node notarized {b:?} (window-first slot) at {at} ms whose parent {parent:?} was not a ready parent given what it had received (ready: {ready:?}; certificates held for the parent's slot: notar {:?} nf {:?} ff {:?}; skip certs {:?}; finalized {:?})",
                                        view.notar.get(&parent.0), view.nf.get(&parent.0), view.ff.get(&parent.0), view.skip, fin.direct
                                    ),
                                );
                            }
                        } else {
                            let prev = own.get(&(slot - 1)).and_then(|p| p.notar);
                            let ok = parent.0 == slot - 1 && (prev == Some(parent.1) || (parent.0 == 0 && parent.1 == 0));
                            if !ok {
                                kernel::violation(
                                    "C05",
                                    "notar-with-unacceptable-parent",
                                    format!("the node notarized {b:?} at {at} ms whose parent {parent:?} is not the block it notarized in slot {} ({prev:?})", slot - 1),
                                );
                            }
                        }
                    }
                }
            }
            VK::Final => {
                final_votes += 1;
                match st.notar {
                    None => kernel::violation("C05", "final-without-notar", format!("finalize vote in slot {slot} without a notar vote")),
                    Some(t) => {
                        // the node's own certificate broadcast follows the final vote in the same handler
                        let (view_later, _, _) = knowledge(*at + 1);
                        if view_later.notar.get(slot) != Some(&t) {
                            kernel::violation(
                                "C05",
                                "final-without-notar-cert",
                                format!("finalize vote in slot {slot} at {at} ms although no notarization certificate for the block it notarized had reached it (notar certs held: {:?})", view_later.notar.get(slot)),
                            );
                        }
                    }
                }
            }
            VK::NotarFallback => {
                fallback_votes += 1;
                let b: Blk = (*slot, tag);
                let m = &models[slot];
                let voted_not_b = st.skip || st.notar.is_some_and(|t| t != tag);
                let stake_ok = model::s2n_stake_condition(m, &stakes, tag);
                let parent_ok = blocks.get(&b).is_some_and(|p| view.certified(*p) && *p != (0, 0));
                if !(voted_not_b && stake_ok && parent_ok) {
                    kernel::violation(
                        "C05",
                        "notar-fallback-before-safe-to-notar",
                        format!(
                            "notar-fallback for {b:?} at {at} ms: initial vote elsewhere {voted_not_b}, stake condition {stake_ok} (notar {} skip {} of {total}), block known and parent certified {parent_ok}",
                            m.notar_stake(&stakes, tag),
                            m.skip_stake(&stakes)
                        ),
                    );
                }
            }
            VK::SkipFallback => {
                fallback_votes += 1;
                let m = &models[slot];
                if !(st.notar.is_some() && model::s2s_stake_condition(m, &stakes)) {
                    kernel::violation(
                        "C05",
                        "skip-fallback-before-safe-to-skip",
                        format!("skip-fallback in slot {slot} at {at} ms: own notar {:?}, skip {} + notar {} - top {} of {total}", st.notar, m.skip_stake(&stakes), m.total_notar_stake(&stakes), m.max_notar_stake(&stakes)),
                    );
                }
            }
            VK::Skip => {}
        }
        model::apply_vote(own.entry(*slot).or_default(), *kind, tag);
        if kernel::has_violation() {
            break;
        }
    }
    if honest && cutoff == u64::MAX && !kernel::has_violation() && !kernel::capped() {
        // C02, node-local: in an environment that follows the protocol (one block per slot extending the
        // chain, delivered within 100 ms of its nominal time; every other validator votes notar and
        // final within the delay bound) the node must notarize and vote to finalize every block, and
        // never cast a skip or fallback vote: each block, its parent's certificate and the node's
        // timeouts leave several hundred milliseconds of slack in every order these events can take
        for slot in 1..=last_slot {
            let st = own.get(&slot).cloned().unwrap_or_default();
            let describe = || {
                own_votes.iter().filter(|v| v.3 + 1 >= slot && v.3 <= slot + 1).map(|(at, _, k, sl, _)| format!("{at}ms {k:?} s{sl}")).collect::<Vec<_>>().join(", ")
            };
            // in a mixed slot (skip- and notar-fallback-certified by the others) the node, having
            // notarized, legitimately casts skip-fallback once safe-to-skip holds, and then no final vote
            let is_mixed = mixed_slots.contains(&slot);
            if st.skip || (st.sf && !is_mixed) || !st.nf.is_empty() {
                kernel::violation(
                    "C02",
                    "node-local:skipped-a-correct-leaders-block",
                    format!("honest environment: the node cast a skip/fallback vote in slot {slot} ({st:?}); its votes around that slot: {}", describe()),
                );
                break;
            }
            // a slot that others finalized before the node could act needs no vote from it
            let t_block = deliveries.iter().filter_map(|d| match &d.what { In::Block { b, .. } if *b == (slot, 1) => Some(d.at_ms), _ => None }).min();
            let Some(t_block) = t_block else { continue };
            let blocks_parent = |sl: u64| deliveries.iter().find_map(|d| match &d.what { In::Block { b, parent } if *b == (sl, 1) => Some(*parent), _ => None });
            let finalized_by = |t: u64| {
                let (v, _, _) = knowledge(t);
                v.ff.keys().any(|sl| *sl >= slot) || v.fin.iter().any(|sl| *sl >= slot)
            };
            // when could the node notarize: block delivered, previous slot notarized by it (or, in a
            // window's first slot, the parent ready)
            let t_prev = if slot % 4 == 0 || slot == 1 {
                Some(t_block)
            } else {
                own_votes.iter().find(|v| v.3 == slot - 1 && v.2 == VK::Notar).map(|v| v.0.max(t_block))
            };
            let Some(t_can) = t_prev else { continue };
            // in a window's first slot the node also needs the parent to be ready
            let t_can = if slot % 4 == 0 {
                let parent = blocks_parent(slot);
                let mut times: Vec<u64> = deliveries.iter().map(|d| d.at_ms).chain(own_votes.iter().map(|v| v.0 + 1)).filter(|t| *t >= t_can).collect();
                times.sort_unstable();
                times.dedup();
                match times.into_iter().find(|t| {
                    let (v, _, _) = knowledge(*t);
                    let fin = v.finality();
                    parent.is_some_and(|p| v.ready_parents(&fin, slot).contains(&p))
                }) {
                    Some(t) => t,
                    None => continue, // the parent never became ready at the node: nothing is owed
                }
            } else {
                t_can
            };
            if st.notar != Some(1) {
                if !finalized_by(t_can + 50) {
                    kernel::violation(
                        "C02",
                        "node-local:block-not-notarized",
                        format!("honest environment: the node never notarized the block of slot {slot} (delivered at {t_block} ms, votable from {t_can} ms, nobody had finalized the slot by then); its votes around that slot: {}", describe()),
                    );
                    break;
                }
                continue;
            }
            // promptness: everything the vote needs was there at t_can; casting it a whole block time
            // later means the block sat unvoted until some unrelated later event
            let t_notar = own_votes.iter().find(|v| v.3 == slot && v.2 == VK::Notar).map_or(t_can, |v| v.0);
            if t_notar > t_can + 400 && !finalized_by(t_can + 50) {
                kernel::violation(
                    "C02",
                    "node-local:notar-vote-late",
                    format!("honest environment: the node could notarize the block of slot {slot} from {t_can} ms (block at {t_block} ms) but did so only at {t_notar} ms; its votes around that slot: {}", describe()),
                );
                break;
            }
            if !st.fin && !is_mixed {
                let t_notar = own_votes.iter().find(|v| v.3 == slot && v.2 == VK::Notar).map_or(t_can, |v| v.0);
                // the notarization certificate forms from the others' votes, all delivered within 750 ms of the slot's nominal time
                if !finalized_by(t_notar.max(t_block) + 1_500) {
                    kernel::violation(
                        "C02",
                        "node-local:block-not-voted-final",
                        format!("honest environment: the node notarized the block of slot {slot} but never voted to finalize it although nobody else had finalized the slot by then; its votes around that slot: {}", describe()),
                    );
                    break;
                }
            }
        }
        kernel::probe("c02_solo_honest_environment_checked");
    }
    kernel::probe_n("c05_solo_notar_votes", notar_votes);
    kernel::probe_n("c05_solo_final_votes", final_votes);
    kernel::probe_n("c05_solo_fallback_votes", fallback_votes);
    for (_, _, k, s, _) in &own_votes {
        kernel::fingerprint(&format!("{k:?}{s}"));
    }
    let sample = json!({"n": n, "stakes": stakes, "stake_kind": stake_kind, "windows": windows, "inputs_delivered": deliveries.len(),
        "own_votes": own_votes.iter().take(30).map(|(at, _, k, s, _)| format!("{at}ms {k:?} s{s}")).collect::<Vec<_>>()});
    let _: Option<(Cert, BTreeSet<u8>)> = None;
    WorldOutcome { nontrivial: fallback_votes > 0 || final_votes > 0, sample, virt_ms: virt }
}
