//! W2 vote-level world: one pool, several slots, all five vote kinds from honest-pattern and
//! Byzantine signers, received certificates, block registrations — in a sampled arrival order.
//! Oracles: C03 (certificates justified/timely/once/valid), C04 (admission table),
//! C06 (safe-to-notar / safe-to-skip exactly when allowed), C18 (standstill bundle at any prefix).

use std::collections::{BTreeMap, BTreeSet};

use alpenglow::consensus::{AddVoteError, Cert};
use serde_json::{Value, json};

use crate::kernel;
use crate::model::{self, ALL_VK, Blk, CK, Offence, SlotModel, VK, Verdict, VoteId};
use crate::poolworld::{self as pw, CertSet, PoolHarness, StepOut};
use crate::props::WorldOutcome;

const G: &str = "gen";
const O: &str = "order";

#[derive(Clone, Debug)]
enum Item {
    Vote(VoteId),
    Block(Blk, Blk),
    /// certificate built from a signer subset: (kind, slot, tag, primary signers, fallback signers)
    Cert(CK, u64, u64, Vec<usize>, Vec<usize>),
    Standstill,
}

fn item_str(i: &Item) -> String {
    match i {
        Item::Vote(v) => format!("vote v{} {:?} s{} t{}", v.v, v.kind, v.slot, v.tag),
        Item::Block(b, p) => format!("block {b:?} parent {p:?}"),
        Item::Cert(ck, s, t, a, b) => format!("cert {ck:?} s{s} t{t} by {a:?}+{b:?}"),
        Item::Standstill => "standstill".to_string(),
    }
}

pub struct VCfg {
    pub n: usize,
    pub stakes: Vec<u64>,
    pub stake_kind: &'static str,
    pub own: usize,
    pub slots: u64,
    pub byz: Vec<bool>,
}

fn offence_of(e: &AddVoteError) -> Option<Offence> {
    let s = format!("{e:?}");
    if s.contains("NotarDifferentHash") {
        Some(Offence::NotarDifferentHash)
    } else if s.contains("SkipAndNotarize") {
        Some(Offence::SkipAndNotarize)
    } else if s.contains("SkipAndFinalize") {
        Some(Offence::SkipAndFinalize)
    } else if s.contains("NotarFallbackAndFinalize") {
        Some(Offence::NotarFallbackAndFinalize)
    } else {
        None
    }
}

/// Honest vote patterns (what a correct Votor can cast in one slot), as (kind, uses_other_block).
fn honest_pattern(main: u64, other: u64, other2: u64) -> Vec<(VK, u64)> {
    match kernel::choose(G, 10) {
        0 => vec![(VK::Notar, main), (VK::Final, 0)],
        1 => vec![(VK::Notar, main)],
        2 => vec![(VK::Skip, 0)],
        3 => vec![(VK::Notar, main), (VK::SkipFallback, 0)],
        4 => vec![(VK::Notar, main), (VK::NotarFallback, other)],
        5 => vec![(VK::Skip, 0), (VK::NotarFallback, main)],
        6 => vec![(VK::Notar, other), (VK::SkipFallback, 0), (VK::NotarFallback, main)],
        7 => vec![(VK::Skip, 0), (VK::NotarFallback, main), (VK::NotarFallback, other)],
        8 => vec![(VK::Notar, other), (VK::NotarFallback, main), (VK::NotarFallback, other2)],
        _ => vec![],
    }
}

pub struct Oracles {
    pub c03: bool,
    pub c04: bool,
    pub c06: bool,
    pub c18: bool,
}

struct State {
    models: BTreeMap<u64, SlotModel>,
    held: CertSet,
    received: CertSet,
    registered: BTreeMap<Blk, Blk>,
    s2n_seen: BTreeSet<Blk>,
    s2s_seen: BTreeSet<u64>,
    created_seen: BTreeSet<(u64, CK, u64)>,
    own_votes: BTreeSet<VoteId>,
}

fn held_has(cs: &CertSet, slot: u64, ck: CK, tag: u64) -> bool {
    cs.get(&(slot, ck)).is_some_and(|s| s.contains(&tag))
}

fn parent_certified(st: &State, parent: Blk) -> bool {
    parent != (0, 0)
        && (held_has(&st.held, parent.0, CK::Notar, parent.1)
            || held_has(&st.held, parent.0, CK::NotarFallback, parent.1)
            || held_has(&st.held, parent.0, CK::FastFinal, parent.1))
}

pub fn draw_cfg(max_slots: u64) -> VCfg {
    let n = 3 + kernel::choose(G, 8) as usize; // 3..=10
    let (stakes, stake_kind) = if kernel::choose(G, 4) == 0 && n == 5 { (vec![1; 5], "equal5") } else { crate::keys::draw_stakes(n, G) };
    let own = kernel::choose(G, n as u64) as usize;
    let slots = 2 + kernel::choose(G, max_slots - 1);
    let mut byz = vec![false; n];
    let wild = kernel::choose(G, 3) == 0;
    let total: u64 = stakes.iter().sum();
    let mut bs = 0;
    for i in 0..n {
        if i == own {
            continue;
        }
        if wild {
            byz[i] = kernel::choose(G, 2) == 1;
        } else if (bs + stakes[i]) * 5 < total && kernel::choose(G, 2) == 1 {
            byz[i] = true;
            bs += stakes[i];
        }
    }
    VCfg { n, stakes, stake_kind, own, slots, byz }
}

/// Generates the item multiset of a run.
fn generate(cfg: &VCfg) -> (Vec<Item>, BTreeMap<Blk, Blk>) {
    let mut items = Vec::new();
    let mut parents: BTreeMap<Blk, Blk> = BTreeMap::new();
    let mut main_chain: Vec<Blk> = vec![(0, 0)];
    for s in 1..=cfg.slots {
        let nblocks = 1 + kernel::choose(G, 3);
        // slot scenario: how strongly validators agree on the main block
        let scenario = kernel::choose(G, 6);
        let prev_main = *main_chain.last().unwrap();
        for t in 1..=nblocks {
            // siblings share the main parent more often than not (F11-style situations)
            let parent = if t == 1 || kernel::choose(G, 3) != 0 {
                prev_main
            } else {
                let k = kernel::choose(G, main_chain.len() as u64) as usize;
                main_chain[k]
            };
            parents.insert((s, t), parent);
            if kernel::choose(G, 8) != 0 {
                items.push(Item::Block((s, t), parent));
                if kernel::choose(G, 10) == 0 {
                    items.push(Item::Block((s, t), parent)); // dissemination + repair both deliver it
                }
            }
        }
        let has_main = scenario != 5;
        for v in 0..cfg.n {
            let votes: Vec<(VK, u64)> = if cfg.byz[v] {
                // Byzantine: arbitrary subset of everything signable in this slot
                let mut vs = Vec::new();
                for k in ALL_VK {
                    match k {
                        VK::Notar | VK::NotarFallback => {
                            for t in 1..=nblocks {
                                if kernel::choose(G, 3) == 0 {
                                    vs.push((k, t));
                                }
                            }
                        }
                        _ => {
                            if kernel::choose(G, 3) == 0 {
                                vs.push((k, 0));
                            }
                        }
                    }
                }
                vs
            } else {
                let other = if nblocks >= 2 { 2 } else { 1 };
                let other2 = if nblocks >= 3 { 3 } else { other };
                let (main, other) = match scenario {
                    0 | 1 => (1, other),                                   // broad agreement on block 1
                    2 => if kernel::choose(G, 2) == 0 { (1, other) } else { (other, 1) }, // split
                    3 => if kernel::choose(G, 3) == 0 { (other, 1) } else { (1, other) },
                    _ => (1, other),
                };
                let mut p = honest_pattern(main, other, other2);
                if scenario == 4 || !has_main {
                    // timeouts dominate
                    if kernel::choose(G, 3) != 0 {
                        p = vec![(VK::Skip, 0)];
                        if kernel::choose(G, 3) == 0 {
                            p.push((VK::NotarFallback, 1));
                        }
                    }
                }
                // drop impossible combinations (notar(x) + nf(x))
                let notar = p.iter().find(|(k, _)| *k == VK::Notar).map(|(_, t)| *t);
                p.retain(|(k, t)| !(*k == VK::NotarFallback && Some(*t) == notar));
                p.dedup();
                p
            };
            for (k, t) in votes {
                let id = VoteId { v, kind: k, slot: s, tag: t };
                if kernel::choose(G, 12) != 0 {
                    items.push(Item::Vote(id));
                } else {
                    kernel::fault("vote_never_delivered");
                }
                if kernel::choose(G, 10) == 0 {
                    items.push(Item::Vote(id)); // duplicate delivery
                    kernel::fault("duplicate_delivery");
                }
            }
        }
        if has_main && scenario <= 3 {
            main_chain.push((s, 1));
        }
        // received certificates for blocks of this slot, from signer subsets around the threshold
        if kernel::choose(G, 2) == 0 {
            let t = 1 + kernel::choose(G, nblocks);
            let ck = [CK::Notar, CK::NotarFallback, CK::FastFinal, CK::Skip, CK::Final][kernel::choose(G, 5) as usize];
            let mut prim = Vec::new();
            let mut fall = Vec::new();
            for v in 0..cfg.n {
                match kernel::choose(G, 4) {
                    0 => {}
                    1 if matches!(ck, CK::NotarFallback | CK::Skip) => fall.push(v),
                    _ => prim.push(v),
                }
            }
            let tag = if matches!(ck, CK::Skip | CK::Final) { 0 } else { t };
            items.push(Item::Cert(ck, s, tag, prim, fall));
        }
    }
    (items, parents)
}

/// Orders the items: a random shuffle, optionally forcing one trigger to arrive last.
fn order(mut items: Vec<Item>, cfg: &VCfg) -> Vec<Item> {
    // Fisher-Yates from the `order` stream (0 = keep in place)
    for i in (1..items.len()).rev() {
        let j = i - kernel::choose(O, (i + 1) as u64) as usize;
        items.swap(i, j);
    }
    kernel::fault("reordered_delivery");
    // forced-last trigger for C06: own vote / a block registration / a parent certificate
    match kernel::choose(O, 5) {
        1 => {
            // all of the own validator's votes last
            let (mut a, b): (Vec<_>, Vec<_>) = items.into_iter().partition(|i| !matches!(i, Item::Vote(v) if v.v == cfg.own));
            a.extend(b);
            items = a;
        }
        2 => {
            let (mut a, b): (Vec<_>, Vec<_>) = items.into_iter().partition(|i| !matches!(i, Item::Block(..)));
            a.extend(b);
            items = a;
        }
        3 => {
            let (mut a, b): (Vec<_>, Vec<_>) = items.into_iter().partition(|i| !matches!(i, Item::Cert(..)));
            a.extend(b);
            items = a;
        }
        4 => {
            // slot by slot, parents' slots last (child votes first, parent certificate by votes last)
            items.sort_by_key(|i| match i {
                Item::Vote(v) => std::cmp::Reverse(v.slot),
                Item::Block(b, _) => std::cmp::Reverse(b.0),
                Item::Cert(_, s, ..) => std::cmp::Reverse(*s),
                Item::Standstill => std::cmp::Reverse(0),
            });
        }
        _ => {}
    }
    items
}

pub fn run(or: &Oracles, prop: &str, max_slots: u64) -> WorldOutcome {
    let cfg = draw_cfg(max_slots);
    let (items, _parents) = generate(&cfg);
    let mut items = order(items, &cfg);
    if or.c18 {
        // crash-point dimension: standstill recovery after sampled prefixes (incl. the empty one)
        let k = 1 + kernel::choose(O, 4);
        for _ in 0..k {
            let pos = kernel::choose(O, (items.len() + 1) as u64) as usize;
            items.insert(pos, Item::Standstill);
        }
        if kernel::choose(O, 4) == 1 {
            items.insert(0, Item::Standstill);
        }
    }
    kernel::event_nt(&format!("vcfg n={} stakes={:?} own={} slots={} byz={:?} items={}", cfg.n, cfg.stakes, cfg.own, cfg.slots, cfg.byz, items.len()));
    let total: u64 = cfg.stakes.iter().sum();
    let mut h = PoolHarness::new(&cfg.stakes, cfg.own);
    let validators = h.epoch.validators().to_vec();
    let mut st = State {
        models: BTreeMap::new(),
        held: CertSet::new(),
        received: CertSet::new(),
        registered: BTreeMap::new(),
        s2n_seen: BTreeSet::new(),
        s2s_seen: BTreeSet::new(),
        created_seen: BTreeSet::new(),
        own_votes: BTreeSet::new(),
    };
    let mut refusals = BTreeSet::new();
    let mut crossing_with_prior_refusal = false;
    let mut nontrigger_s2n = false;
    let mut standstills = 0u32;
    let mut sample_steps: Vec<String> = Vec::new();
    let mut premise_discard = false;

    for (step, item) in items.iter().enumerate() {
        if sample_steps.len() < 40 {
            sample_steps.push(item_str(item));
        }
        kernel::event_nt(&format!("step {step} {}", item_str(item)));
        let wm_before = h.watermark();
        let panics_before = kernel::peek_panics();
        let mut cert_given: Option<(u64, CK, u64)> = None;
        let mut trigger = "vote";
        let res = std::panic::catch_unwind(std::panic::AssertUnwindSafe(|| match item {
            Item::Vote(id) => {
                let verdict = h.add_vote(*id);
                Some(verdict)
            }
            Item::Block(b, p) => {
                h.add_block(*b, *p);
                None
            }
            Item::Cert(ck, s, t, a, b) => {
                if let Some(c) = pw::build_cert(*ck, *s, *t, a, b, &validators) {
                    let _ = h.add_cert(c);
                }
                None
            }
            Item::Standstill => {
                h.standstill();
                None
            }
        }));
        let verdict = match res {
            Ok(v) => v,
            Err(_) => {
                // classify: safety asserts under inputs outside the <20% premise are discards here
                let ps = kernel::take_panics();
                let msg = ps.last().map(|p| format!("{} @ {}", p.message, p.location)).unwrap_or_default();
                if msg.contains("consensus safety violation") {
                    premise_discard = true;
                    kernel::probe("discarded_input_outside_premise");
                    break;
                }
                let site = ps.last().map(|p| p.location.rsplit('/').next().unwrap_or("").to_string()).unwrap_or_default();
                let p = if matches!(item, Item::Standstill) { "C18" } else { prop };
                kernel::violation(p, format!("panic:{site}"), format!("step {step} ({}) panicked: {msg}", item_str(item)));
                break;
            }
        };
        let _ = panics_before;
        let out = h.drain();
        match item {
            Item::Block(b, p) => {
                st.registered.entry(*b).or_insert(*p);
                trigger = "block";
            }
            Item::Cert(ck, s, t, ..) => {
                cert_given = Some((*s, *ck, *t));
                trigger = "cert";
            }
            Item::Standstill => trigger = "standstill",
            Item::Vote(id) if id.v == cfg.own => trigger = "ownvote",
            Item::Vote(_) => {}
        }

        // ---------------- C04: admission verdict ----------------
        if let (Item::Vote(id), Some(verdict)) = (item, &verdict) {
            let m = st.models.entry(id.slot).or_insert_with(|| SlotModel::new(cfg.n));
            let expected = if id.slot < wm_before { None } else { Some(model::expected_verdict(&m.vals[id.v], id.kind, id.tag)) };
            match (&expected, verdict) {
                (None, Err(AddVoteError::SlotOutOfBounds)) => {
                    refusals.insert("out_of_bounds");
                }
                (None, other) => {
                    if or.c04 {
                        kernel::violation("C04", "bounds:old-slot-vote-not-refused", format!("vote {} for slot below the watermark {wm_before} returned {other:?}", item_str(item)));
                    }
                }
                (Some(Verdict::Ok), Ok(())) => {
                    model::apply_vote(&mut m.vals[id.v], id.kind, id.tag);
                    if id.v == cfg.own {
                        st.own_votes.insert(*id);
                    }
                }
                (Some(Verdict::Duplicate), Err(AddVoteError::Duplicate)) => {
                    refusals.insert("duplicate");
                }
                (Some(Verdict::Slashable(ok)), Err(e @ AddVoteError::Slashable(_))) if offence_of(e).is_some_and(|o| ok.contains(&o)) => {
                    refusals.insert("slashable");
                }
                (Some(exp), got) => {
                    let prior = &m.vals[id.v];
                    let class = match (exp, got) {
                        (Verdict::Ok, Err(_)) => "legit-vote-refused",
                        (Verdict::Slashable(_), Ok(())) => "conflicting-vote-accepted",
                        (Verdict::Slashable(_), Err(_)) => "conflict-misreported",
                        (Verdict::Duplicate, Ok(())) => "repeat-counted-twice",
                        (Verdict::Duplicate, Err(_)) => "repeat-misreported",
                        _ => "verdict-mismatch",
                    };
                    if or.c04 {
                        kernel::violation(
                            "C04",
                            format!("admission:{class}:{:?}", id.kind),
                            format!("{} with previously accepted {:?}: expected {exp:?}, pool returned {got:?}", item_str(item), prior),
                        );
                    }
                    // keep the model aligned with what the pool actually did so later checks stay meaningful
                    if got.is_ok() {
                        model::apply_vote(&mut m.vals[id.v], id.kind, id.tag);
                    }
                }
            }
        }

        // ---------------- C03: certificates ----------------
        let mut created_now: Vec<(u64, CK, u64)> = Vec::new();
        for c in &out.certs {
            let key = pw::cert_key(c);
            let is_received = cert_given == Some(key) && !held_has(&st.held, key.0, key.1, key.2);
            pw::certset_insert(&mut st.held, key);
            if is_received {
                pw::certset_insert(&mut st.received, key);
                continue;
            }
            created_now.push(key);
            if !or.c03 {
                continue;
            }
            if !st.created_seen.insert(key) {
                kernel::violation("C03", format!("once:created-twice:{:?}", key.1), format!("certificate {key:?} created more than once"));
            }
            let m = st.models.entry(key.0).or_insert_with(|| SlotModel::new(cfg.n));
            if !model::threshold_reached(m, &cfg.stakes, key.1, key.2) {
                kernel::violation(
                    "C03",
                    format!("only-when:below-threshold:{:?}", key.1),
                    format!("{key:?} created at step {step} but accepted votes do not reach its threshold (total {total})"),
                );
            }
            let signers: Vec<usize> = c.signers().map(|s| s.as_usize()).collect();
            let set: BTreeSet<usize> = signers.iter().copied().collect();
            if set.len() != signers.len() {
                kernel::violation("C03", format!("signers:counted-twice:{:?}", key.1), format!("{key:?} lists a signer twice: {signers:?}"));
            }
            let expected = m.expected_signers(key.1, key.2);
            if set != expected {
                kernel::violation(
                    "C03",
                    format!("signers:mismatch:{:?}", key.1),
                    format!("{key:?} created at step {step} ({}) with signers {set:?}, accepted matching voters are {expected:?}", item_str(item)),
                );
            }
            let declared = c.stake().inner();
            let actual: u64 = set.iter().map(|i| cfg.stakes[*i]).sum();
            if !pw::cert_valid(c, &h.epoch, &cfg.stakes) {
                kernel::violation(
                    "C03",
                    format!("valid:rejected-by-peers:{:?}", key.1),
                    format!("{key:?} created at step {step} fails ValidatedCert::try_new (signers {set:?} stake {actual}/{total}, declared {declared})"),
                );
            } else if declared != actual {
                kernel::violation("C03", format!("valid:declared-stake:{:?}", key.1), format!("{key:?} declares stake {declared}, signers hold {actual}"));
            }
            if st.models.get(&key.0).is_some_and(|m| m.vals.iter().any(|v| v.notar.is_some() || v.skip)) && !refusals.is_empty() {
                crossing_with_prior_refusal = true;
            }
        }
        if or.c03 {
            // "as soon as": every threshold the accepted votes reach has its certificate after this step
            let wm = h.watermark();
            for (slot, m) in &st.models {
                if *slot < wm {
                    continue;
                }
                for ck in [CK::Notar, CK::FastFinal, CK::Final, CK::Skip] {
                    let tags: Vec<u64> = if matches!(ck, CK::Notar | CK::FastFinal) { m.notar_tags().into_iter().collect() } else { vec![0] };
                    let reached = tags.iter().any(|t| model::threshold_reached(m, &cfg.stakes, ck, *t));
                    let have = st.held.get(&(*slot, ck)).is_some_and(|s| !s.is_empty());
                    if reached && !have {
                        kernel::violation(
                            "C03",
                            format!("as-soon-as:missing:{ck:?}"),
                            format!("after step {step} ({}) accepted votes reach the {ck:?} threshold in slot {slot} but no such certificate exists", item_str(item)),
                        );
                    }
                }
                for t in m.all_tags() {
                    if model::threshold_reached(m, &cfg.stakes, CK::NotarFallback, t) && !held_has(&st.held, *slot, CK::NotarFallback, t) {
                        kernel::violation(
                            "C03",
                            "as-soon-as:missing:NotarFallback",
                            format!("after step {step} ({}) notar+notar-fallback votes for block ({slot},{t}) reach 60% but no notar-fallback certificate exists", item_str(item)),
                        );
                    }
                }
            }
            // queries agree with the event stream
            for s in wm.max(1)..=cfg.slots {
                let q = [
                    (h.pool.has_notar_cert(alpenglow::types::Slot::new(s)), st.held.get(&(s, CK::Notar)).is_some_and(|x| !x.is_empty()), "has_notar_cert"),
                    (h.pool.has_skip_cert(alpenglow::types::Slot::new(s)), st.held.get(&(s, CK::Skip)).is_some_and(|x| !x.is_empty()), "has_skip_cert"),
                    (
                        h.pool.has_final_cert(alpenglow::types::Slot::new(s)),
                        st.held.get(&(s, CK::Final)).is_some_and(|x| !x.is_empty()) || st.held.get(&(s, CK::FastFinal)).is_some_and(|x| !x.is_empty()),
                        "has_final_cert",
                    ),
                ];
                for (got, want, name) in q {
                    if got != want {
                        kernel::violation("C03", format!("query:{name}"), format!("{name}({s}) = {got} but the event stream says {want} after step {step}"));
                    }
                }
            }
        }

        // ---------------- C06: safe-to-notar / safe-to-skip ----------------
        if or.c06 {
            let wm = h.watermark();
            for b in &out.s2n {
                if !st.s2n_seen.insert(*b) {
                    kernel::violation("C06", "s2n:twice", format!("SafeToNotar{b:?} raised twice (step {step})"));
                }
                let ok = s2n_predicate(&st, &cfg, *b);
                if !ok && st.registered.get(b).is_none_or(|p| *p != (0, 0)) {
                    kernel::violation(
                        "C06",
                        format!("s2n:not-allowed:{trigger}"),
                        format!("SafeToNotar{b:?} raised at step {step} ({}) although its conditions do not hold: {}", item_str(item), s2n_explain(&st, &cfg, *b)),
                    );
                }
                if trigger != "vote" {
                    nontrigger_s2n = true;
                }
                kernel::probe(match trigger {
                    "vote" => "s2n_by_vote",
                    "ownvote" => "s2n_by_own_vote",
                    "block" => "s2n_by_block",
                    "cert" => "s2n_by_parent_cert",
                    _ => "s2n_by_other",
                });
            }
            for s in &out.s2s {
                if !st.s2s_seen.insert(*s) {
                    kernel::violation("C06", "s2s:twice", format!("SafeToSkip({s}) raised twice (step {step})"));
                }
                if !s2s_predicate(&st, &cfg, *s) {
                    kernel::violation("C06", format!("s2s:not-allowed:{trigger}"), format!("SafeToSkip({s}) raised at step {step} ({}) although its conditions do not hold", item_str(item)));
                }
                kernel::probe("s2s_raised");
            }
            // "as soon as": anything whose conditions hold now must have been raised by now
            for (b, parent) in &st.registered {
                // exempt: decided slots (at or below the watermark, or holding a finalization
                // certificate), genesis parents, and blocks the own validator already voted
                // notar-fallback for (the generator's own votes do not wait for the event)
                let decided = b.0 <= wm
                    || st.held.get(&(b.0, CK::FastFinal)).is_some_and(|x| !x.is_empty())
                    || st.held.get(&(b.0, CK::Final)).is_some_and(|x| !x.is_empty());
                let own_nf = st.models.get(&b.0).is_some_and(|m| m.vals[cfg.own].nf.contains(&b.1));
                if decided || own_nf || *parent == (0, 0) || parent.0 < wm || st.s2n_seen.contains(b) {
                    continue;
                }
                if s2n_predicate(&st, &cfg, *b) {
                    kernel::violation(
                        "C06",
                        format!("s2n:not-raised:{trigger}"),
                        format!("all conditions of SafeToNotar{b:?} hold after step {step} ({}) but it was not raised: {}", item_str(item), s2n_explain(&st, &cfg, *b)),
                    );
                }
            }
            for s in st.models.keys() {
                let decided = *s <= wm
                    || st.held.get(&(*s, CK::FastFinal)).is_some_and(|x| !x.is_empty())
                    || st.held.get(&(*s, CK::Final)).is_some_and(|x| !x.is_empty());
                let own_sf = st.models.get(s).is_some_and(|m| m.vals[cfg.own].sf);
                if !decided && !own_sf && !st.s2s_seen.contains(s) && s2s_predicate(&st, &cfg, *s) {
                    kernel::violation(
                        "C06",
                        format!("s2s:not-raised:{trigger}"),
                        format!("all conditions of SafeToSkip({s}) hold after step {step} ({}) but it was not raised", item_str(item)),
                    );
                }
            }
        }

        // ---------------- C18: standstill bundle ----------------
        if or.c18 && matches!(item, Item::Standstill) {
            standstills += 1;
            check_standstill(&h, &st, &cfg, &out, step);
        }
        let _ = created_now;
        if kernel::has_violation() {
            break;
        }
    }

    // C04 fault_enumeration: every ordered pair of kinds x {same, different} hash on fresh slots
    if or.c04 && !premise_discard && !kernel::has_violation() {
        enumerate_pairs(&mut h, &cfg);
    }

    let nontrivial = !premise_discard
        && match prop {
            "C03" => !st.created_seen.is_empty() && !refusals.is_empty(),
            "C04" => refusals.len() >= 2,
            "C06" => !st.s2n_seen.is_empty() || !st.s2s_seen.is_empty(),
            "C18" => standstills > 0,
            _ => true,
        };
    if crossing_with_prior_refusal {
        kernel::probe("cert_formed_after_refused_vote");
    }
    if nontrigger_s2n {
        kernel::probe("s2n_by_non_vote_trigger_runs");
    }
    for b in &st.s2n_seen {
        kernel::fingerprint(&format!("N{b:?}"));
    }
    for k in &st.created_seen {
        kernel::fingerprint(&format!("C{k:?}"));
    }
    kernel::fingerprint(&format!("{:?}{:?}{}", cfg.stakes, refusals, cfg.own));
    let sample = json!({
        "n": cfg.n, "stakes": cfg.stakes, "stake_kind": cfg.stake_kind, "own": cfg.own, "slots": cfg.slots,
        "byzantine": cfg.byz, "steps": items.len(), "first_steps": sample_steps,
        "certs_created": st.created_seen.iter().map(|k| format!("{k:?}")).collect::<Vec<_>>(),
        "safe_to_notar": st.s2n_seen.iter().map(|k| format!("{k:?}")).collect::<Vec<_>>(),
        "safe_to_skip": st.s2s_seen.iter().collect::<Vec<_>>(),
        "refusal_classes": refusals.iter().collect::<Vec<_>>(),
    });
    WorldOutcome { nontrivial, sample, virt_ms: 0 }
}

fn s2n_predicate(st: &State, cfg: &VCfg, b: Blk) -> bool {
    let Some(m) = st.models.get(&b.0) else { return false };
    let own = &m.vals[cfg.own];
    let voted_not_b = own.skip || own.notar.is_some_and(|t| t != b.1);
    let Some(parent) = st.registered.get(&b) else { return false };
    voted_not_b && model::s2n_stake_condition(m, &cfg.stakes, b.1) && parent_certified(st, *parent)
}

fn s2n_explain(st: &State, cfg: &VCfg, b: Blk) -> String {
    let total: u64 = cfg.stakes.iter().sum();
    let Some(m) = st.models.get(&b.0) else { return "no votes".into() };
    format!(
        "own votes {:?}; notar({})={} skip={} total={}; block registered={:?}; parent certified={}",
        m.vals[cfg.own],
        b.1,
        m.notar_stake(&cfg.stakes, b.1),
        m.skip_stake(&cfg.stakes),
        total,
        st.registered.get(&b),
        st.registered.get(&b).is_some_and(|p| parent_certified(st, *p))
    )
}

fn s2s_predicate(st: &State, cfg: &VCfg, s: u64) -> bool {
    let Some(m) = st.models.get(&s) else { return false };
    m.vals[cfg.own].notar.is_some() && model::s2s_stake_condition(m, &cfg.stakes)
}

fn check_standstill(h: &PoolHarness, st: &State, cfg: &VCfg, out: &StepOut, step: usize) {
    // The vote-level generator does not guarantee a globally protocol-consistent certificate set
    // (its honest signers vote unconditionally), so "same ready parents" is only demanded in the
    // certificate-level world, whose histories are consistent by construction.
    check_standstill_generic(h, &st.held, &st.own_votes, &cfg.stakes, cfg.own, out, step, false);
}

pub fn check_standstill_generic(
    h: &PoolHarness,
    held: &CertSet,
    own_votes: &BTreeSet<VoteId>,
    stakes: &[u64],
    own: usize,
    out: &StepOut,
    step: usize,
    check_parents: bool,
) {
    let Some((ev_slot, certs, votes)) = out.standstill.first() else {
        kernel::violation("C18", "bundle:missing", format!("recover_from_standstill at step {step} emitted no Standstill event"));
        return;
    };
    let fin = h.finalized_slot();
    if *ev_slot != fin + 1 {
        kernel::violation("C18", "bundle:slot", format!("Standstill event names slot {ev_slot}, finalized slot is {fin}"));
    }
    let keys: BTreeSet<(u64, CK, u64)> = certs.iter().map(pw::cert_key).collect();
    // proof of the highest finalized slot
    if fin > 0 {
        let ff = keys.iter().any(|k| k.0 == fin && k.1 == CK::FastFinal);
        let slow = keys.iter().any(|k| k.0 == fin && k.1 == CK::Final) && keys.iter().any(|k| k.0 == fin && k.1 == CK::Notar);
        if !ff && !slow {
            kernel::violation("C18", "bundle:no-finality-proof", format!("bundle at step {step} does not prove finalized slot {fin}: {keys:?}"));
        }
    }
    // every held certificate for later slots
    for ((slot, ck), tags) in held {
        if *slot <= fin {
            continue;
        }
        for t in tags {
            if !keys.contains(&(*slot, *ck, *t)) {
                kernel::violation("C18", format!("bundle:missing-cert:{ck:?}"), format!("held certificate ({slot},{ck:?},{t}) for a slot after {fin} is not in the bundle (step {step})"));
            }
        }
    }
    // own votes for later slots
    let bundle_votes: BTreeSet<VoteId> = votes.iter().map(pw::vote_id_of).collect();
    for v in own_votes {
        if v.slot > fin && !bundle_votes.contains(v) {
            kernel::violation("C18", format!("bundle:missing-own-vote:{:?}", v.kind), format!("own accepted vote {v:?} for a slot after {fin} is not in the bundle (step {step})"));
        }
    }
    for v in &bundle_votes {
        if v.v != own {
            kernel::violation("C18", "bundle:foreign-vote", format!("bundle contains a vote of validator {} (own is {})", v.v, own));
        }
    }
    // receiver side: everything validates, and a fresh pool catches up
    match pw::fresh_pool_from_bundle(stakes, own, certs, votes) {
        Err(e) => kernel::violation("C18", "bundle:invalid-element", format!("step {step}: {e}")),
        Ok(fresh) => {
            if fresh.finalized_slot() != fin {
                kernel::violation("C18", "catchup:finalized-slot", format!("fresh pool fed the bundle reaches finalized slot {} instead of {fin} (step {step})", fresh.finalized_slot()));
            }
            let next_window = (fin / 4 + 1) * 4;
            let a = h.parents_ready(next_window);
            let b = fresh.parents_ready(next_window);
            if check_parents && a != b {
                kernel::violation(
                    "C18",
                    "catchup:parents-ready",
                    format!("ready parents for window {next_window}: original {a:?}, fresh pool fed the bundle {b:?} (finalized {fin}, step {step})"),
                );
            }
        }
    }
    // forwarding half: a real Votor that saw the same events must broadcast the whole bundle,
    // whatever its own pruning state
    match pw::votor_forwards_bundle(h, *ev_slot, certs, votes) {
        Ok(None) => kernel::probe("c18_votor_forwarded_whole_bundle"),
        Ok(Some(what)) => kernel::violation(
            "C18",
            "forward:bundle-item-not-broadcast",
            format!("Votor, given the standstill bundle emitted at step {step} (finalized slot {fin}), did not broadcast {what}"),
        ),
        Err(()) => kernel::probe("c18_votor_probe_inconclusive"),
    }
}

/// All ordered pairs of the five vote kinds x {same, different} block, each on a fresh slot.
fn enumerate_pairs(h: &mut PoolHarness, cfg: &VCfg) {
    let v = (cfg.own + 1) % cfg.n;
    let base = h.finalized_slot().max(cfg.slots) + 40;
    let mut slot = base;
    let mut count = 0u64;
    for a in ALL_VK {
        for b in ALL_VK {
            for same in [true, false] {
                let has_block = |k: VK| matches!(k, VK::Notar | VK::NotarFallback);
                if !same && !(has_block(a) && has_block(b)) {
                    continue;
                }
                slot += 1;
                let ta = if has_block(a) { 1 } else { 0 };
                let tb = if has_block(b) { if same { 1 } else { 2 } } else { 0 };
                let ida = VoteId { v, kind: a, slot, tag: ta };
                let idb = VoteId { v, kind: b, slot, tag: tb };
                let mut stv = model::ValVotes::default();
                let r1 = h.add_vote(ida);
                if r1 != Ok(()) {
                    kernel::violation("C04", format!("pairs:first-refused:{a:?}"), format!("first vote {ida:?} on a fresh slot refused: {r1:?}"));
                    continue;
                }
                model::apply_vote(&mut stv, a, ta);
                let exp = model::expected_verdict(&stv, b, tb);
                let r2 = h.add_vote(idb);
                let ok = match (&exp, &r2) {
                    (Verdict::Ok, Ok(())) => true,
                    (Verdict::Duplicate, Err(AddVoteError::Duplicate)) => true,
                    (Verdict::Slashable(ok), Err(e @ AddVoteError::Slashable(_))) => offence_of(e).is_some_and(|o| ok.contains(&o)),
                    _ => false,
                };
                count += 1;
                if !ok {
                    kernel::violation(
                        "C04",
                        format!("pairs:{a:?}-then-{b:?}:{}", if same { "same" } else { "different" }),
                        format!("{a:?}(block {ta}) then {b:?}(block {tb}) from one validator: expected {exp:?}, pool returned {r2:?}"),
                    );
                }
            }
        }
    }
    let _ = h.drain();
    kernel::probe_n("c04_ordered_pairs_enumerated", count);
    let _: Option<Cert> = None;
    let _: Option<Value> = None;
}
