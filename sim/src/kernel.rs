//! Simulation kernel: one integer decides everything.
//!
//! * `Decisions`: every random choice of a run goes through a named stream and is
//!   recorded; a run is a pure function of (code, parameters, decision log).
//!   In generation mode streams are fed by PRNGs derived from the run seed; in replay
//!   mode they are consumed from the recorded log and, once exhausted, answer the benign
//!   default `0` (deliver, no fault, minimal delay, adversary idle).
//! * thread-local run context: event log hash, fault/probe counters, violations.
//! * process-wide panic hook that attributes panics to the run on the panicking thread.
//!
//! Logging never draws from a PRNG and never reads a clock other than tokio's paused one.

use std::cell::RefCell;
use std::collections::BTreeMap;

use rand::prelude::*;
use sha2::{Digest, Sha256};

/// One recorded stream of choices.
#[derive(Clone, Debug, Default)]
pub struct Stream {
    pub rec: Vec<u32>,
    pos: usize,
}

pub struct Decisions {
    seed: u64,
    replay: bool,
    rngs: BTreeMap<String, StdRng>,
    pub streams: BTreeMap<String, Stream>,
    /// number of choices answered with the default because the log ran out (replay only)
    pub defaults_used: u64,
}

fn stream_rng(seed: u64, name: &str) -> StdRng {
    let mut h = Sha256::new();
    h.update(b"agsim-stream");
    h.update(seed.to_le_bytes());
    h.update(name.as_bytes());
    let d: [u8; 32] = h.finalize().into();
    StdRng::from_seed(d)
}

impl Decisions {
    pub fn generate(seed: u64) -> Self {
        Self { seed, replay: false, rngs: BTreeMap::new(), streams: BTreeMap::new(), defaults_used: 0 }
    }

    pub fn replay(seed: u64, streams: BTreeMap<String, Vec<u32>>) -> Self {
        let streams = streams.into_iter().map(|(k, rec)| (k, Stream { rec, pos: 0 })).collect();
        Self { seed, replay: true, rngs: BTreeMap::new(), streams, defaults_used: 0 }
    }

    pub fn seed(&self) -> u64 {
        self.seed
    }

    /// Uniform choice in `0..n` (n >= 1). `0` must be the benign outcome at every call site.
    pub fn choose(&mut self, stream: &str, n: u64) -> u64 {
        debug_assert!(n >= 1);
        if n <= 1 {
            return 0;
        }
        if self.replay {
            let s = self.streams.entry(stream.to_string()).or_default();
            let v = match s.rec.get(s.pos) {
                Some(v) => u64::from(*v),
                None => {
                    self.defaults_used += 1;
                    0
                }
            };
            s.pos += 1;
            v % n
        } else {
            let seed = self.seed;
            let rng = self.rngs.entry(stream.to_string()).or_insert_with(|| stream_rng(seed, stream));
            let v = rng.random_range(0..n);
            self.streams.entry(stream.to_string()).or_default().rec.push(v as u32);
            v
        }
    }

    /// Bernoulli outcome with probability `num/den`; the recorded value is the *outcome*
    /// (0 = did not fire), so that zeroing a recorded decision removes the fault.
    pub fn flip(&mut self, stream: &str, num: u64, den: u64) -> bool {
        if num == 0 {
            return false;
        }
        if self.replay {
            return self.choose(stream, 2) == 1;
        }
        let seed = self.seed;
        let rng = self.rngs.entry(stream.to_string()).or_insert_with(|| stream_rng(seed, stream));
        let fired = rng.random_range(0..den) < num;
        self.streams.entry(stream.to_string()).or_default().rec.push(u32::from(fired));
        fired
    }

    pub fn export(&self) -> BTreeMap<String, Vec<u32>> {
        self.streams.iter().map(|(k, s)| (k.clone(), s.rec.clone())).collect()
    }

    pub fn total_len(&self) -> usize {
        self.streams.values().map(|s| s.rec.len()).sum()
    }

    pub fn nonzero(&self) -> usize {
        self.streams.values().map(|s| s.rec.iter().filter(|v| **v != 0).count()).sum()
    }
}

#[derive(Clone, Debug)]
pub struct Violation {
    pub property: String,
    /// oracle id + discriminating details; minimisation keeps only candidates with the same class
    pub class: String,
    pub detail: String,
    pub at_event: u64,
    pub virt_ms: u64,
}

#[derive(Clone, Debug)]
pub struct PanicRecord {
    pub message: String,
    pub location: String,
    pub virt_ms: u64,
    pub task: String,
    /// for a panic located in a dependency: the innermost frame of the crate under test through
    /// which it was reached (`None` if the harness called the dependency itself)
    pub via_repo: Option<String>,
}

pub struct RunCtx {
    pub dec: Decisions,
    hasher: Sha256,
    pub events: u64,
    pub faults: BTreeMap<&'static str, u64>,
    pub probes: BTreeMap<&'static str, u64>,
    pub violations: Vec<Violation>,
    pub trace: Option<Vec<String>>,
    pub t0: Option<tokio::time::Instant>,
    /// abstracted per-node history fingerprint (distinct-interleaving measure)
    pub fp: Sha256,
    pub max_events: u64,
    pub capped: bool,
    pub wall_start: std::time::Instant,
    pub max_wall_s: u64,
    pub wall_capped: bool,
}

thread_local! {
    static CTX: RefCell<Option<RunCtx>> = const { RefCell::new(None) };
    static PANICS: RefCell<Vec<PanicRecord>> = const { RefCell::new(Vec::new()) };
    static IN_RUN: RefCell<bool> = const { RefCell::new(false) };
    static TASK_NAME: RefCell<String> = const { RefCell::new(String::new()) };
    static VIRT_MS: RefCell<u64> = const { RefCell::new(0) };
}

pub fn begin_run(dec: Decisions, trace: bool, max_events: u64) {
    alpenglow::verif::set_seed(dec.seed());
    let _ = alpenglow::verif::take_finalization_log();
    PANICS.with(|p| p.borrow_mut().clear());
    IN_RUN.with(|r| *r.borrow_mut() = true);
    VIRT_MS.with(|v| *v.borrow_mut() = 0);
    CTX.with(|c| {
        *c.borrow_mut() = Some(RunCtx {
            dec,
            hasher: Sha256::new(),
            events: 0,
            faults: BTreeMap::new(),
            probes: BTreeMap::new(),
            violations: Vec::new(),
            trace: if trace { Some(Vec::new()) } else { None },
            t0: None,
            fp: Sha256::new(),
            max_events,
            capped: false,
            wall_start: std::time::Instant::now(),
            max_wall_s: 120,
            wall_capped: false,
        });
    });
}

pub fn end_run() -> (RunCtx, Vec<PanicRecord>) {
    IN_RUN.with(|r| *r.borrow_mut() = false);
    let ctx = CTX.with(|c| c.borrow_mut().take()).expect("end_run without begin_run");
    let panics = PANICS.with(|p| std::mem::take(&mut *p.borrow_mut()));
    (ctx, panics)
}

pub fn with<R>(f: impl FnOnce(&mut RunCtx) -> R) -> R {
    CTX.with(|c| f(c.borrow_mut().as_mut().expect("no run context on this thread")))
}

pub fn choose(stream: &str, n: u64) -> u64 {
    with(|c| c.dec.choose(stream, n))
}

pub fn flip(stream: &str, num: u64, den: u64) -> bool {
    with(|c| c.dec.flip(stream, num, den))
}

/// Weighted choice; index 0 must be the benign option.
pub fn weighted(stream: &str, weights: &[u64]) -> usize {
    let total: u64 = weights.iter().sum();
    if total == 0 {
        return 0;
    }
    // record the chosen *index* so that replay/minimisation is stable under weight changes
    with(|c| {
        if c.dec.replay {
            return (c.dec.choose(stream, weights.len() as u64)) as usize;
        }
        let seed = c.dec.seed;
        let rng = c.dec.rngs.entry(stream.to_string()).or_insert_with(|| stream_rng(seed, stream));
        let mut x = rng.random_range(0..total);
        let mut idx = 0;
        for (i, w) in weights.iter().enumerate() {
            if x < *w {
                idx = i;
                break;
            }
            x -= *w;
        }
        c.dec.streams.entry(stream.to_string()).or_default().rec.push(idx as u32);
        idx
    })
}

pub fn set_t0() {
    let now = tokio::time::Instant::now();
    with(|c| c.t0 = Some(now));
}

/// Virtual milliseconds since the start of the run.
pub fn now_ms() -> u64 {
    let t0 = with(|c| c.t0);
    let ms = match t0 {
        Some(t0) => (tokio::time::Instant::now() - t0).as_millis() as u64,
        None => 0,
    };
    VIRT_MS.with(|v| *v.borrow_mut() = ms);
    ms
}

/// Appends an event to the run's event log (rolling hash + optional trace).
pub fn event(s: &str) {
    let ms = now_ms();
    if live() {
        eprintln!("{ms:>7} {s}");
    }
    with(|c| {
        c.events += 1;
        c.hasher.update(ms.to_le_bytes());
        c.hasher.update(c.events.to_le_bytes());
        c.hasher.update(s.as_bytes());
        if let Some(t) = &mut c.trace {
            t.push(format!("{ms:>7} #{:<6} {s}", c.events));
        }
        if c.events >= c.max_events {
            c.capped = true;
        }
        // wall-clock watchdog (only consulted every 4096 events; a hit ends the run as "capped")
        if c.events % 4096 == 0 && c.wall_start.elapsed().as_secs() > c.max_wall_s {
            c.capped = true;
            c.wall_capped = true;
        }
    });
}

/// Event without virtual time (component worlds without a runtime).
pub fn event_nt(s: &str) {
    with(|c| {
        c.events += 1;
        c.hasher.update(c.events.to_le_bytes());
        c.hasher.update(s.as_bytes());
        if let Some(t) = &mut c.trace {
            t.push(format!("#{:<6} {s}", c.events));
        }
        if c.events >= c.max_events {
            c.capped = true;
        }
    });
}

pub fn live() -> bool {
    use std::sync::OnceLock;
    static LIVE: OnceLock<bool> = OnceLock::new();
    *LIVE.get_or_init(|| std::env::var("AGSIM_LIVE").is_ok())
}

pub fn capped() -> bool {
    with(|c| c.capped)
}

/// Adds to the abstracted-history fingerprint (does not enter the determinism hash).
pub fn fingerprint(s: &str) {
    with(|c| c.fp.update(s.as_bytes()));
}

pub fn fault(kind: &'static str) {
    with(|c| *c.faults.entry(kind).or_insert(0) += 1);
}

pub fn probe(kind: &'static str) {
    with(|c| *c.probes.entry(kind).or_insert(0) += 1);
}

pub fn probe_n(kind: &'static str, n: u64) {
    with(|c| *c.probes.entry(kind).or_insert(0) += n);
}

pub fn violation(property: &str, class: impl Into<String>, detail: impl Into<String>) {
    let class = class.into();
    let detail = detail.into();
    let ms = VIRT_MS.with(|v| *v.borrow());
    with(|c| {
        // one violation per class per run is enough
        if c.violations.iter().any(|v| v.property == property && v.class == class) {
            return;
        }
        if let Some(t) = &mut c.trace {
            t.push(format!("{ms:>7} !!! VIOLATION {property} {class}: {detail}"));
        }
        let at_event = c.events;
        c.violations.push(Violation { property: property.to_string(), class, detail, at_event, virt_ms: ms });
    });
}

pub fn has_violation() -> bool {
    with(|c| !c.violations.is_empty())
}

pub fn finish_hash(c: &mut RunCtx) -> String {
    let d: [u8; 32] = std::mem::take(&mut c.hasher).finalize().into();
    d.iter().map(|b| format!("{b:02x}")).collect()
}

pub fn finish_fp(c: &mut RunCtx) -> u64 {
    let d: [u8; 32] = std::mem::take(&mut c.fp).finalize().into();
    u64::from_le_bytes(d[0..8].try_into().unwrap())
}

pub fn set_task_name(name: &str) {
    TASK_NAME.with(|t| *t.borrow_mut() = name.to_string());
}

/// Marks a helper thread spawned by a world (a simulated caller thread): panics on it are recorded
/// in that thread's own panic list (read with [`take_panics`] on that thread) instead of being printed.
pub fn worker_thread_enter() {
    IN_RUN.with(|r| *r.borrow_mut() = true);
}

pub fn take_panics() -> Vec<PanicRecord> {
    PANICS.with(|p| p.try_borrow_mut().map(|mut p| std::mem::take(&mut *p)).unwrap_or_default())
}

pub fn peek_panics() -> usize {
    PANICS.with(|p| p.try_borrow().map(|p| p.len()).unwrap_or(0))
}

/// Installs the process-wide panic hook (idempotent).
pub fn install_panic_hook(verbose: bool) {
    use std::sync::Once;
    static ONCE: Once = Once::new();
    ONCE.call_once(|| {
        let default = std::panic::take_hook();
        std::panic::set_hook(Box::new(move |info| {
            let in_run = IN_RUN.with(|r| r.try_borrow().map(|r| *r).unwrap_or(false));
            if !in_run {
                default(info);
                return;
            }
            let message = if let Some(s) = info.payload().downcast_ref::<&str>() {
                (*s).to_string()
            } else if let Some(s) = info.payload().downcast_ref::<String>() {
                s.clone()
            } else {
                "<non-string panic payload>".to_string()
            };
            let location = info.location().map(|l| format!("{}:{}", l.file(), l.line())).unwrap_or_default();
            let via_repo = if location_in_repo(&location) || location.starts_with("src/") || location.contains("/verif/sim/") {
                None
            } else {
                let bt = std::backtrace::Backtrace::force_capture().to_string();
                if std::env::var("AGSIM_BT").is_ok() {
                    eprintln!("[backtrace of a panic in a dependency]\n{bt}");
                }
                innermost_repo_frame(&bt)
            };
            let virt_ms = VIRT_MS.with(|v| v.try_borrow().map(|v| *v).unwrap_or(0));
            let task = TASK_NAME.with(|t| t.try_borrow().map(|t| t.clone()).unwrap_or_default());
            if verbose {
                eprintln!("[panic in run] {location}: {message}");
            }
            PANICS.with(|p| {
                if let Ok(mut p) = p.try_borrow_mut() {
                    p.push(PanicRecord { message, location, virt_ms, task, via_repo });
                }
            });
        }));
    });
}

/// Walks a backtrace from the panic site outwards and returns the first frame of the crate under
/// test, unless a frame of the harness comes first (then the harness itself called the dependency).
fn innermost_repo_frame(bt: &str) -> Option<String> {
    // frame lines look like "12: path::to::function"
    let frames: Vec<&str> = bt
        .lines()
        .filter_map(|line| {
            let (idx, sym) = line.trim_start().split_once(": ")?;
            (!idx.is_empty() && idx.bytes().all(|b| b.is_ascii_digit())).then_some(sym.trim())
        })
        .collect();
    // the first frames are this hook and the panic machinery
    let start = frames
        .iter()
        .take(16)
        .rposition(|s| s.contains("panicking::") || s.contains("rust_begin_unwind") || s.contains("install_panic_hook") || s.contains("rust_panic"))
        .map_or(0, |i| i + 1);
    for sym in frames.into_iter().skip(start) {
        if sym.starts_with("agsim::") || sym.starts_with("<agsim::") || sym.contains(" as agsim::") {
            return None;
        }
        if sym.starts_with("alpenglow::") || sym.starts_with("<alpenglow::") || sym.contains(" as alpenglow::") || sym.contains("<alpenglow::") {
            return Some(sym.chars().take(160).collect());
        }
    }
    None
}

/// `true` iff the panic is attributed to the code under test: it is located in the repository's
/// sources, or in a dependency that was reached through a function of the repository's crate.
pub fn panic_in_repo(p: &PanicRecord) -> bool {
    location_in_repo(&p.location) || p.via_repo.is_some()
}

/// `true` iff the location string points into the code under test.
pub fn location_in_repo(loc: &str) -> bool {
    // the crate under test is a path dependency, so its panic locations are absolute paths;
    // the harness' own files show up as relative `src/...` paths and must never count
    if loc.starts_with("/repo/src") {
        return true;
    }
    // scratch builds against a copy of the repository (mutation experiments)
    std::env::var("AGSIM_REPO_PREFIX").is_ok_and(|p| loc.starts_with(&p))
}
