//! W2 certificate-level world: a protocol-consistent history of blocks and certificates over
//! several leader windows (forks, skips, fast/slow finalization, gaps), of which the pool receives
//! a sampled subset in a sampled order (certificates, or the votes forming them, and block-parent
//! registrations). Oracles: C07 (parent-ready), C08 (finality tracking + pruning), C18 (standstill).

use std::collections::{BTreeMap, BTreeSet};

use either::Either;
use serde_json::json;

use crate::kernel;
use crate::model::{Blk, CK, CertView, Finality, VK, VoteId};
use crate::poolworld::{self as pw, CertSet, PoolHarness};
use crate::props::WorldOutcome;

const G: &str = "gen";
const O: &str = "order";

#[derive(Clone, Debug)]
enum Item {
    Cert(CK, u64, u64, Vec<usize>, Vec<usize>),
    /// the same certificate delivered as the votes that form it
    Votes(CK, u64, u64, Vec<usize>, Vec<usize>),
    Block(Blk, Blk),
    Wait(u64),
    Standstill,
}

fn item_str(i: &Item) -> String {
    match i {
        Item::Cert(ck, s, t, a, b) => format!("cert {ck:?} s{s} t{t} by {a:?}+{b:?}"),
        Item::Votes(ck, s, t, a, b) => format!("votes-forming {ck:?} s{s} t{t} by {a:?}+{b:?}"),
        Item::Block(b, p) => format!("block {b:?} parent {p:?}"),
        Item::Wait(s) => format!("wait_for_parent_ready({s})"),
        Item::Standstill => "standstill".to_string(),
    }
}

pub struct Oracles {
    pub c07: bool,
    pub c08: bool,
    pub c18: bool,
}

/// Random signer set whose stake meets `num/5` of the total (a random superset of a minimal one).
fn signer_set(stakes: &[u64], num: u64) -> Vec<usize> {
    let n = stakes.len();
    let total: u64 = stakes.iter().sum();
    let mut order: Vec<usize> = (0..n).collect();
    for i in (1..n).rev() {
        let j = i - kernel::choose(G, (i + 1) as u64) as usize;
        order.swap(i, j);
    }
    let mut set = Vec::new();
    let mut sum = 0u64;
    for v in order {
        if u128::from(sum) * 5 >= u128::from(total) * u128::from(num) {
            if kernel::choose(G, 3) == 0 {
                set.push(v); // extra signer beyond the threshold
            }
            continue;
        }
        set.push(v);
        sum += stakes[v];
    }
    set.sort_unstable();
    set
}

struct Hist {
    items: Vec<Item>,
    n_windows: u64,
}

/// Generates a protocol-consistent global history and the node's share of it.
fn generate(stakes: &[u64], max_windows: u64) -> Hist {
    let n_windows = 2 + kernel::choose(G, max_windows - 1);
    let last_slot = n_windows * 4 + 3;
    let mut view = CertView::default();
    let mut items = Vec::new();
    let mut last_final: Blk = (0, 0);
    let mut stalled = false;
    // descendant relation through generated parent links
    let mut parents: BTreeMap<Blk, Blk> = BTreeMap::new();
    let descends = |parents: &BTreeMap<Blk, Blk>, mut b: Blk, anc: Blk| -> bool {
        loop {
            if b == anc {
                return true;
            }
            match parents.get(&b) {
                Some(p) if p.0 >= anc.0 => b = *p,
                _ => return anc == (0, 0) && b.0 == 0,
            }
        }
    };
    let mut votes_used: BTreeSet<(u64, u64)> = BTreeSet::new();
    // `notar_ok` / `ff_ok`: whether the history contains a notar / fast-final certificate for this
    // block, i.e. whether delivering the underlying notar votes may form one inside the pool
    let mut cert_item_ex = |items: &mut Vec<Item>, ck: CK, s: u64, t: u64, stakes: &[u64], notar_ok: bool, ff_ok: bool| {
        let num = if ck == CK::FastFinal { 4 } else { 3 };
        let set = signer_set(stakes, num);
        let (prim, fall) = if matches!(ck, CK::NotarFallback | CK::Skip) {
            let mut p = Vec::new();
            let mut f = Vec::new();
            for v in set {
                if kernel::choose(G, 3) == 0 { f.push(v) } else { p.push(v) }
            }
            (p, f)
        } else {
            (set, vec![])
        };
        // the node may miss a certificate entirely
        if kernel::choose(G, 10) == 0 {
            return;
        }
        let total: u64 = stakes.iter().sum();
        let notar_part: u64 = if matches!(ck, CK::Notar | CK::NotarFallback | CK::FastFinal) { prim.iter().map(|v| stakes[*v]).sum() } else { 0 };
        let votes_consistent = (notar_ok || notar_part * 5 < total * 3) && (ff_ok || notar_part * 5 < total * 4);
        // at most one certificate per block is delivered as votes: the notar votes of two signer
        // sets would add up inside the pool and form certificates the history does not contain
        let block_free = t == 0 || !votes_used.contains(&(s, t));
        if votes_consistent && block_free && kernel::choose(G, 4) == 0 {
            if t != 0 {
                votes_used.insert((s, t));
            }
            items.push(Item::Votes(ck, s, t, prim, fall));
        } else {
            items.push(Item::Cert(ck, s, t, prim.clone(), fall.clone()));
            if kernel::choose(G, 8) == 0 {
                items.push(Item::Cert(ck, s, t, prim, fall)); // duplicate delivery
            }
        }
    };
    for s in 1..=last_slot {
        if stalled {
            break;
        }
        let first = s % 4 == 0;
        let fin = view.finality();
        // acceptable parents for blocks of this slot
        let cands: Vec<Blk> = if first {
            view.ready_parents(&fin, s).into_iter().collect()
        } else {
            let mut c: Vec<Blk> = Vec::new();
            if let Some(t) = view.notar.get(&(s - 1)) {
                c.push((s - 1, *t));
            }
            if let Some(ts) = view.nf.get(&(s - 1)) {
                for t in ts {
                    if !c.contains(&(s - 1, *t)) {
                        c.push((s - 1, *t));
                    }
                }
            }
            if s == 1 {
                c.push((0, 0));
            }
            c
        };
        // outcome: 0 FF, 1 slow-final, 2 notar only, 3 nf only, 4 skip, 5 nothing (stall)
        let mut outcome = if cands.is_empty() { 4 } else { [0, 0, 1, 1, 2, 3, 4, 4, 2, 0][kernel::choose(G, 10) as usize] };
        if s > last_slot - 2 && kernel::choose(G, 6) == 0 {
            outcome = 5;
        }
        if outcome == 5 {
            stalled = true;
            continue;
        }
        if outcome == 4 {
            view.skip.insert(s);
            cert_item_ex(&mut items, CK::Skip, s, 0, stakes, false, false);
            continue;
        }
        let parent = cands[kernel::choose(G, cands.len() as u64) as usize];
        let main: Blk = (s, 1);
        parents.insert(main, parent);
        view.parents.insert(main, parent);
        if kernel::choose(G, 12) != 0 {
            items.push(Item::Block(main, parent));
            if kernel::choose(G, 10) == 0 {
                items.push(Item::Block(main, parent));
            }
        }
        // finalization only on the chain of the last finalized block
        if outcome <= 1 && !descends(&parents, main, last_final) {
            outcome = 2;
        }
        match outcome {
            0 => {
                view.notar.insert(s, 1);
                view.nf.entry(s).or_default().insert(1);
                view.ff.insert(s, 1);
                cert_item_ex(&mut items, CK::FastFinal, s, 1, stakes, true, true);
                if kernel::choose(G, 2) == 0 {
                    cert_item_ex(&mut items, CK::Notar, s, 1, stakes, true, true);
                }
                if kernel::choose(G, 3) == 0 {
                    cert_item_ex(&mut items, CK::NotarFallback, s, 1, stakes, true, true);
                }
                if kernel::choose(G, 3) == 0 {
                    view.fin.insert(s);
                    cert_item_ex(&mut items, CK::Final, s, 0, stakes, false, false);
                }
                last_final = main;
            }
            1 => {
                view.notar.insert(s, 1);
                view.nf.entry(s).or_default().insert(1);
                view.fin.insert(s);
                cert_item_ex(&mut items, CK::Notar, s, 1, stakes, true, false);
                cert_item_ex(&mut items, CK::Final, s, 0, stakes, false, false);
                if kernel::choose(G, 3) == 0 {
                    cert_item_ex(&mut items, CK::NotarFallback, s, 1, stakes, true, false);
                }
                last_final = main;
            }
            2 | 3 => {
                if outcome == 2 {
                    view.notar.insert(s, 1);
                    cert_item_ex(&mut items, CK::Notar, s, 1, stakes, true, false);
                }
                view.nf.entry(s).or_default().insert(1);
                if outcome == 3 || kernel::choose(G, 2) == 0 {
                    cert_item_ex(&mut items, CK::NotarFallback, s, 1, stakes, outcome == 2, false);
                }
                // competing sibling with a notar-fallback certificate
                if kernel::choose(G, 3) == 0 {
                    let sib: Blk = (s, 2);
                    let sp = cands[kernel::choose(G, cands.len() as u64) as usize];
                    parents.insert(sib, sp);
                    view.parents.insert(sib, sp);
                    view.nf.entry(s).or_default().insert(2);
                    if kernel::choose(G, 8) != 0 {
                        items.push(Item::Block(sib, sp));
                    }
                    cert_item_ex(&mut items, CK::NotarFallback, s, 2, stakes, false, false);
                }
                if kernel::choose(G, 2) == 0 {
                    view.skip.insert(s);
                    cert_item_ex(&mut items, CK::Skip, s, 0, stakes, false, false);
                }
            }
            _ => {}
        }
    }
    Hist { items, n_windows }
}

fn order(mut items: Vec<Item>) -> Vec<Item> {
    match kernel::choose(O, 4) {
        0 => {} // in generation (slot) order
        1 => items.reverse(),
        _ => {
            // Fisher-Yates; with mode 3 only a local perturbation (window of 6)
            let local = kernel::choose(O, 2) == 1;
            for i in (1..items.len()).rev() {
                let span = if local { (i + 1).min(6) } else { i + 1 };
                let j = i - kernel::choose(O, span as u64) as usize;
                items.swap(i, j);
            }
        }
    }
    items
}

pub fn run(or: &Oracles, prop: &str, max_windows: u64) -> WorldOutcome {
    let n = 4 + kernel::choose(G, 6) as usize;
    let (stakes, stake_kind) = crate::keys::draw_stakes(n, G);
    let own = kernel::choose(G, n as u64) as usize;
    let hist = generate(&stakes, max_windows);
    let mut items = order(hist.items);
    kernel::fault("reordered_delivery");
    // waiters and standstill triggers at sampled positions
    let extra = kernel::choose(O, 4);
    // the tracker supports a single waiter per slot (the block producer registers one per own window)
    let mut waited: BTreeSet<u64> = BTreeSet::new();
    for _ in 0..extra {
        let pos = kernel::choose(O, (items.len() + 1) as u64) as usize;
        let w = 1 + kernel::choose(O, hist.n_windows + 1);
        if waited.insert(w) {
            items.insert(pos, Item::Wait(w * 4));
        }
    }
    if or.c18 {
        let k = 1 + kernel::choose(O, 3);
        for _ in 0..k {
            let pos = kernel::choose(O, (items.len() + 1) as u64) as usize;
            items.insert(pos, Item::Standstill);
        }
    }
    kernel::event_nt(&format!("kcfg n={n} stakes={stakes:?} own={own} windows={} items={}", hist.n_windows, items.len()));

    let mut h = PoolHarness::new(&stakes, own);
    let validators = h.epoch.validators().to_vec();
    let mut view = CertView::default();
    let mut held = CertSet::new();
    let mut announced: BTreeSet<(u64, Blk)> = BTreeSet::new();
    let mut logged_fin: BTreeMap<u64, u64> = BTreeMap::new();
    let mut logged_skip: BTreeSet<u64> = BTreeSet::new();
    let mut waiters: Vec<(u64, tokio::sync::oneshot::Receiver<alpenglow::BlockId>)> = Vec::new();
    let mut own_votes: BTreeSet<VoteId> = BTreeSet::new();
    let mut last_fin_slot = 0u64;
    let mut sample_steps = Vec::new();
    let mut n_standstill = 0;
    let mut implicit_seen = false;
    let mut prev_ref = Finality::default();
    let mut prev_ref_ready: BTreeMap<u64, BTreeSet<Blk>> = BTreeMap::new();
    let mut exempt: BTreeSet<(u64, Blk)> = BTreeSet::new();
    let max_slot = hist.n_windows * 4 + 8;

    'steps: for (step, item) in items.iter().enumerate() {
        if sample_steps.len() < 40 {
            sample_steps.push(item_str(item));
        }
        kernel::event_nt(&format!("step {step} {}", item_str(item)));
        let wm_before = h.watermark();
        let mut accepted: Vec<(u64, CK, u64)> = Vec::new();
        let res = std::panic::catch_unwind(std::panic::AssertUnwindSafe(|| {
            match item {
                Item::Cert(ck, s, t, a, b) => {
                    if let Some(c) = pw::build_cert(*ck, *s, *t, a, b, &validators) {
                        match h.add_cert(c) {
                            Ok(Ok(())) => accepted.push((*s, *ck, *t)),
                            Ok(Err(e)) => {
                                let oob = e.contains("SlotOutOfBounds");
                                // a valid certificate for an undecided slot may only be refused as a
                                // duplicate of one the pool already holds (same slot and type; for
                                // notar-fallback also the same block)
                                let already = held.get(&(*s, *ck)).is_some_and(|tags| *ck != CK::NotarFallback || tags.contains(t));
                                if (or.c08 || or.c07) && !oob && e.contains("Duplicate") && !already {
                                    kernel::violation(
                                        if or.c08 { "C08" } else { "C07" },
                                        "bounds:new-certificate-refused-as-duplicate",
                                        format!("add_cert({ck:?}, slot {s}, block tag {t}) returned {e} although the pool holds no {ck:?} certificate for that slot{} (held there: {:?}; step {step})",
                                            if *ck == CK::NotarFallback { " and block" } else { "" },
                                            held.iter().filter(|((sl, _), _)| sl == s).collect::<Vec<_>>()),
                                    );
                                }
                                if or.c08 && oob != (*s < wm_before) {
                                    kernel::violation(
                                        "C08",
                                        if oob { "bounds:undecided-slot-refused" } else { "bounds:decided-slot-accepted" },
                                        format!("add_cert({ck:?}, slot {s}) returned {e} with watermark {wm_before} (step {step})"),
                                    );
                                }
                            }
                            Err(()) => {}
                        }
                    }
                }
                Item::Votes(ck, s, t, a, b) => {
                    let (k1, k2) = match ck {
                        CK::Notar | CK::FastFinal => (VK::Notar, VK::Notar),
                        CK::NotarFallback => (VK::Notar, VK::NotarFallback),
                        CK::Skip => (VK::Skip, VK::SkipFallback),
                        CK::Final => (VK::Final, VK::Final),
                    };
                    for (set, k) in [(a, k1), (b, k2)] {
                        for v in set {
                            let id = VoteId { v: *v, kind: k, slot: *s, tag: *t };
                            let wm = h.watermark();
                            let r = h.add_vote(id);
                            if r.is_ok() && *v == own {
                                own_votes.insert(id);
                            }
                            let oob = matches!(r, Err(alpenglow::consensus::AddVoteError::SlotOutOfBounds));
                            if or.c08 && oob != (*s < wm) {
                                kernel::violation(
                                    "C08",
                                    if oob { "bounds:undecided-slot-refused" } else { "bounds:decided-slot-accepted" },
                                    format!("add_vote({id:?}) returned {r:?} with watermark {wm} (step {step})"),
                                );
                            }
                        }
                    }
                }
                Item::Block(b, p) => h.add_block(*b, *p),
                Item::Wait(s) => match h.pool_wait(*s) {
                    Either::Left(b) => {
                        if or.c07 {
                            let f = view.finality();
                            let r = view.ready_parents(&f, *s);
                            if *s >= wm_before && !r.contains(&b) {
                                kernel::violation("C07", "waiter:wrong-parent", format!("wait_for_parent_ready({s}) returned {b:?}, reference ready set is {r:?} (step {step})"));
                            }
                        }
                    }
                    Either::Right(rx) => {
                        if or.c07 {
                            let f = view.finality();
                            let r = view.ready_parents(&f, *s);
                            if *s > wm_before && !r.is_empty() {
                                kernel::violation("C07", "waiter:not-served", format!("wait_for_parent_ready({s}) registered a waiter although {r:?} are ready (step {step})"));
                            }
                        }
                        // some callers give up waiting (the block producer does when the window is
                        // skipped): the pair that becomes ready later must still be recorded
                        if kernel::choose(O, 3) == 1 {
                            kernel::probe("c07_waiter_abandoned");
                            drop(rx);
                        } else {
                            waiters.push((*s, rx));
                        }
                    }
                },
                Item::Standstill => h.standstill(),
            }
        }));
        if res.is_err() {
            let ps = kernel::take_panics();
            let p = ps.last();
            let msg = p.map(|p| format!("{} @ {}", p.message, p.location)).unwrap_or_default();
            let site = p.map(|p| p.location.rsplit('/').next().unwrap_or("").to_string()).unwrap_or_default();
            // the generated history is consistent with < 20 % Byzantine stake by construction, so a
            // tripped assertion is a bookkeeping failure, not a premise violation
            let owner = if matches!(item, Item::Standstill) {
                "C18"
            } else if msg.contains("parent_ready") {
                "C07"
            } else {
                "C08"
            };
            if (owner == "C07" && or.c07) || (owner == "C08" && or.c08) || (owner == "C18" && or.c18) {
                kernel::violation(owner, format!("panic:{site}"), format!("step {step} ({}) panicked: {msg}", item_str(item)));
            }
            break 'steps;
        }
        let out = h.drain();
        if let Item::Block(b, p) = item {
            view.parents.entry(*b).or_insert(*p);
        }
        for c in &out.certs {
            let key = pw::cert_key(c);
            pw::certset_insert(&mut held, key);
        }
        for key in &accepted {
            if !pw::certset_insert(&mut held, *key) && !out.certs.iter().any(|c| pw::cert_key(c) == *key) {
                // accepted but no CertCreated event — the two views of "held" disagree
                if or.c08 {
                    kernel::violation("C08", "held:accepted-without-event", format!("add_cert accepted {key:?} but no CertCreated event was emitted (step {step})"));
                }
            }
        }
        // rebuild the reference view from what the pool holds
        view.notar.clear();
        view.nf.clear();
        view.ff.clear();
        view.fin.clear();
        view.skip.clear();
        for ((s, ck), tags) in &held {
            for t in tags {
                match ck {
                    CK::Notar => {
                        view.notar.insert(*s, *t);
                    }
                    CK::NotarFallback => {
                        view.nf.entry(*s).or_default().insert(*t);
                    }
                    CK::FastFinal => {
                        view.ff.insert(*s, *t);
                    }
                    CK::Final => {
                        view.fin.insert(*s);
                    }
                    CK::Skip => {
                        view.skip.insert(*s);
                    }
                }
            }
        }
        let f = view.finality();
        if std::env::var("AGSIM_KDEBUG").is_ok() {
            let mut w = 4;
            let mut line = format!("   wm={} fin={} ", h.watermark(), h.finalized_slot());
            while w <= max_slot {
                line.push_str(&format!("| pr({w})={:?} ref={:?} ", h.parents_ready(w), view.ready_parents(&f, w)));
                w += 4;
            }
            eprintln!("step {step} {} \n{line}\n   events: pr={:?} fin={:?}/{:?}/{:?}", item_str(item), out.parent_ready, out.fin_direct, out.fin_implicit, out.fin_skipped);
        }

        // ---------------- C08 ----------------
        if or.c08 {
            let fs = h.finalized_slot();
            if fs < last_fin_slot {
                kernel::violation("C08", "finalized-slot:decreased", format!("finalized_slot went from {last_fin_slot} to {fs} (step {step})"));
            }
            last_fin_slot = fs;
            if fs != f.highest_direct() {
                kernel::violation(
                    "C08",
                    if fs < f.highest_direct() { "finalized-slot:behind-certificates" } else { "finalized-slot:unjustified" },
                    format!("finalized_slot() = {fs}, certificates held justify {} (step {step}: {})", f.highest_direct(), item_str(item)),
                );
            }
            for b in out.fin_direct.iter().chain(out.fin_implicit.iter()) {
                if b.0 == 0 {
                    continue; // genesis is finalized by definition; its (re-)report carries no information
                }
                if let Some(prev) = logged_fin.insert(b.0, b.1) {
                    kernel::violation("C08", "report:finalized-twice", format!("slot {} reported finalized again ({prev} then {}) at step {step}", b.0, b.1));
                }
            }
            if !out.fin_implicit.is_empty() {
                implicit_seen = true;
            }
            for s in &out.fin_skipped {
                if !logged_skip.insert(*s) {
                    kernel::violation("C08", "report:skipped-twice", format!("slot {s} reported implicitly skipped twice (step {step})"));
                }
            }
            let mut ref_fin: BTreeMap<u64, u64> = f.direct.clone();
            ref_fin.extend(f.implicit.iter().map(|(k, v)| (*k, *v)));
            if logged_fin != ref_fin {
                let missing: Vec<_> = ref_fin.iter().filter(|(k, _)| !logged_fin.contains_key(k)).collect();
                let extra: Vec<_> = logged_fin.iter().filter(|(k, v)| ref_fin.get(k) != Some(v)).collect();
                kernel::violation(
                    "C08",
                    if missing.is_empty() { "report:unjustified-finalization" } else { "report:finalization-not-reported" },
                    format!("after step {step} ({}): finalized per certificates+parents but not reported: {missing:?}; reported but not justified: {extra:?}", item_str(item)),
                );
            }
            if logged_skip != f.implicit_skipped {
                let missing: Vec<_> = f.implicit_skipped.difference(&logged_skip).collect();
                let extra: Vec<_> = logged_skip.difference(&f.implicit_skipped).collect();
                kernel::violation(
                    "C08",
                    if missing.is_empty() { "report:unjustified-skip" } else { "report:skip-not-reported" },
                    format!("after step {step} ({}): implicitly skipped per reference but not reported: {missing:?}; reported but not implied: {extra:?}", item_str(item)),
                );
            }
            let wm = h.watermark();
            if wm != f.watermark() {
                kernel::violation(
                    "C08",
                    if wm < f.watermark() { "watermark:behind" } else { "watermark:ahead" },
                    format!("first unpruned slot is {wm}, the decided prefix ends at {} (step {step}: {})", f.watermark(), item_str(item)),
                );
            }
            let stale: Vec<u64> = h.pool.verif_retained_slots().iter().map(|s| s.inner()).filter(|s| *s < wm).collect();
            if !stale.is_empty() {
                kernel::violation("C08", "retention:stale-slots", format!("state retained for decided slots {stale:?} below the watermark {wm} after step {step} ({})", item_str(item)));
            }
        }

        // ---------------- C07 ----------------
        if or.c07 {
            let wm = h.watermark();
            for (s, b) in &out.parent_ready {
                if !announced.insert((*s, *b)) {
                    kernel::violation("C07", "announce:twice", format!("ParentReady({s}, {b:?}) announced twice (step {step})"));
                }
                if s % 4 != 0 {
                    kernel::violation("C07", "announce:not-window-start", format!("ParentReady for slot {s} which is not the first slot of a window"));
                }
                if !view.ready_parents(&f, *s).contains(b) {
                    kernel::violation(
                        "C07",
                        "announce:not-ready",
                        format!("ParentReady({s}, {b:?}) announced at step {step} ({}) but {b:?} is not a certified, skip-connected parent for {s}", item_str(item)),
                    );
                }
            }
            let mut w = 4;
            let mut cur_ref_ready: BTreeMap<u64, BTreeSet<Blk>> = BTreeMap::new();
            while w <= max_slot {
                if w >= wm.max(1) {
                    let reference = view.ready_parents(&f, w);
                    let got = h.parents_ready(w);
                    if got != reference {
                        let missing: Vec<_> = reference.difference(&got).collect();
                        let extra: Vec<_> = got.difference(&reference).collect();
                        kernel::violation(
                            "C07",
                            if missing.is_empty() { "query:extra-parent" } else { "query:missing-parent" },
                            format!("parents_ready({w}) after step {step} ({}): missing {missing:?}, extra {extra:?} (watermark {wm})", item_str(item)),
                        );
                    }
                    cur_ref_ready.insert(w, reference.clone());
                    // announcements agree with the query for every window still open for action
                    if w > f.highest_direct() {
                        for b in &reference {
                            // Narrow relaxation (DESIGN §7 C07): one finalization event announces only
                            // the highest-window pair it produces; pairs that became ready in a step that
                            // also reported a finalization are exempt from the "announced" demand.
                            let newly = !prev_ref_ready.get(&w).is_some_and(|r: &BTreeSet<Blk>| r.contains(b));
                            let fin_step = !out.fin_direct.is_empty() || !out.fin_implicit.is_empty() || !out.fin_skipped.is_empty();
                            if newly && fin_step && !announced.contains(&(w, *b)) {
                                exempt.insert((w, *b));
                            }
                            if !announced.contains(&(w, *b)) && !exempt.contains(&(w, *b)) {
                                kernel::violation(
                                    "C07",
                                    "announce:missing",
                                    format!("{b:?} is ready for window {w} after step {step} ({}) but was never announced", item_str(item)),
                                );
                            }
                        }
                    }
                }
                w += 4;
            }
            prev_ref_ready = cur_ref_ready;
            // waiters
            let mut keep = Vec::new();
            for (s, mut rx) in waiters.drain(..) {
                match rx.try_recv() {
                    Ok((bs, bh)) => {
                        let b = pw::blk_of(bs.inner(), &bh);
                        if !view.ready_parents(&f, s).contains(&b) {
                            kernel::violation("C07", "waiter:woken-with-wrong-parent", format!("waiter for {s} woken with {b:?} which is not ready (step {step})"));
                        }
                        kernel::probe("waiter_woken");
                    }
                    Err(tokio::sync::oneshot::error::TryRecvError::Empty) => {
                        if s > wm && !view.ready_parents(&f, s).is_empty() {
                            kernel::violation("C07", "waiter:not-woken", format!("waiter for {s} still pending although {:?} are ready (step {step})", view.ready_parents(&f, s)));
                        }
                        keep.push((s, rx));
                    }
                    Err(tokio::sync::oneshot::error::TryRecvError::Closed) => {
                        kernel::probe("waiter_dropped_by_pruning");
                    }
                }
            }
            waiters = keep;
        }

        if or.c18 && matches!(item, Item::Standstill) {
            n_standstill += 1;
            crate::vworld::check_standstill_generic(&h, &held, &own_votes, &stakes, own, &out, step, true);
        }
        prev_ref = f;
        if kernel::has_violation() {
            break;
        }
    }
    let _ = prev_ref;

    let nontrivial = match prop {
        "C07" => announced.len() >= 2,
        "C08" => implicit_seen || logged_fin.len() >= 2,
        "C18" => n_standstill > 0,
        _ => true,
    };
    kernel::fingerprint(&format!("{stakes:?}{own}{announced:?}{logged_fin:?}{logged_skip:?}"));
    let sample = json!({
        "n": n, "stakes": stakes, "stake_kind": stake_kind, "own": own, "windows": hist.n_windows, "steps": items.len(),
        "first_steps": sample_steps,
        "parent_ready_announced": announced.iter().map(|a| format!("{a:?}")).collect::<Vec<_>>(),
        "finalized_reported": logged_fin, "implicitly_skipped_reported": logged_skip,
        "final_watermark": h.watermark(), "finalized_slot": h.finalized_slot(),
    });
    WorldOutcome { nontrivial, sample, virt_ms: 0 }
}
