//! W2 `pool`: one real `PoolImpl` under sampled arrival schedules.
//!
//! The other validators are a universe of validly signed votes, certificates built from arbitrary
//! vote subsets (hook H3) and block registrations, delivered in an order decided by the kernel.
//! After every step the pool's outputs (event channel, return values, finalization log, queries)
//! are compared with the reference models of `model.rs`.

use std::collections::{BTreeMap, BTreeSet, HashMap};
use std::sync::{Arc, Mutex, OnceLock};

use alpenglow::consensus::{
    AddVoteError, Cert, EpochInfo, FastFinalCert, FinalCert, FinalVote, NotarCert, NotarFallbackCert,
    NotarFallbackVote, NotarVote, Pool, PoolEvent, PoolImpl, SkipCert, SkipFallbackVote, SkipVote,
    ValidatedCert, ValidatedVote, ValidatorEpochInfo, Vote,
};
use alpenglow::crypto::merkle::{BlockHash, GENESIS_BLOCK_HASH};
use alpenglow::types::Slot;
use alpenglow::verif::{FinalizationKind, take_finalization_log};
use alpenglow::{BlockId, ValidatorIndex};
use tokio::sync::mpsc;

use crate::kernel;
use crate::keys;
use crate::model::{Blk, CK, VK, VoteId};
use crate::wire;

pub const MAXV: usize = 12;

pub fn hash_of(b: Blk) -> BlockHash {
    if b == (0, 0) { GENESIS_BLOCK_HASH } else { wire::synth_hash(b.0, b.1) }
}

pub fn id_of(b: Blk) -> BlockId {
    (Slot::new(b.0), hash_of(b))
}

static REV: OnceLock<Mutex<HashMap<BlockHash, Blk>>> = OnceLock::new();

/// Reverse lookup for synthetic hashes (registered when first produced).
pub fn blk_of(slot: u64, h: &BlockHash) -> Blk {
    if *h == GENESIS_BLOCK_HASH {
        return (0, 0);
    }
    let m = REV.get_or_init(|| Mutex::new(HashMap::new()));
    let mut m = m.lock().unwrap();
    if let Some(b) = m.get(h) {
        return *b;
    }
    // populate lazily for small tags
    for t in 0..64u64 {
        m.entry(wire::synth_hash(slot, t)).or_insert((slot, t));
    }
    m.get(h).copied().unwrap_or((slot, u64::MAX))
}

#[derive(Clone)]
pub enum TypedVote {
    Notar(NotarVote),
    NotarFallback(NotarFallbackVote),
    Skip(SkipVote),
    SkipFallback(SkipFallbackVote),
    Final(FinalVote),
}

struct VoteMemo {
    typed: HashMap<VoteId, TypedVote>,
    validated: HashMap<VoteId, ValidatedVote>,
}

static VOTES: OnceLock<Mutex<VoteMemo>> = OnceLock::new();
static CANON_EPOCH: OnceLock<EpochInfo> = OnceLock::new();

fn canon_epoch() -> &'static EpochInfo {
    CANON_EPOCH.get_or_init(|| keys::epoch(&vec![1; 64]))
}

pub fn typed_vote(id: VoteId) -> TypedVote {
    let m = VOTES.get_or_init(|| Mutex::new(VoteMemo { typed: HashMap::new(), validated: HashMap::new() }));
    if let Some(t) = m.lock().unwrap().typed.get(&id) {
        return t.clone();
    }
    let kp = keys::keypair(id.v);
    let me = ValidatorIndex::new(id.v as u64);
    let slot = Slot::new(id.slot);
    let t = match id.kind {
        VK::Notar => TypedVote::Notar(NotarVote::new(slot, hash_of((id.slot, id.tag)), &kp.vsk, me)),
        VK::NotarFallback => TypedVote::NotarFallback(NotarFallbackVote::new(slot, hash_of((id.slot, id.tag)), &kp.vsk, me)),
        VK::Skip => TypedVote::Skip(SkipVote::new(slot, &kp.vsk, me)),
        VK::SkipFallback => TypedVote::SkipFallback(SkipFallbackVote::new(slot, &kp.vsk, me)),
        VK::Final => TypedVote::Final(FinalVote::new(slot, &kp.vsk, me)),
    };
    m.lock().unwrap().typed.insert(id, t.clone());
    t
}

pub fn plain_vote(id: VoteId) -> Vote {
    match typed_vote(id) {
        TypedVote::Notar(v) => Vote::Notar(v),
        TypedVote::NotarFallback(v) => Vote::NotarFallback(v),
        TypedVote::Skip(v) => Vote::Skip(v),
        TypedVote::SkipFallback(v) => Vote::SkipFallback(v),
        TypedVote::Final(v) => Vote::Final(v),
    }
}

/// Validated vote (signature checked once per process by the crate's own `ValidatedVote::try_new`).
pub fn validated_vote(id: VoteId) -> ValidatedVote {
    let m = VOTES.get_or_init(|| Mutex::new(VoteMemo { typed: HashMap::new(), validated: HashMap::new() }));
    if let Some(v) = m.lock().unwrap().validated.get(&id) {
        return v.clone();
    }
    let v = ValidatedVote::try_new(plain_vote(id), canon_epoch()).expect("harness-signed vote must validate");
    m.lock().unwrap().validated.insert(id, v.clone());
    v
}

/// Builds a certificate of the given type from the given signer sets (first set: primary kind,
/// second set: fallback kind for the mixed certificates). Uses the crate's constructors (H3).
pub fn build_cert(ck: CK, slot: u64, tag: u64, primary: &[usize], fallback: &[usize], validators: &[alpenglow::ValidatorInfo]) -> Option<Cert> {
    let nv = |v: &usize| match typed_vote(VoteId { v: *v, kind: VK::Notar, slot, tag }) {
        TypedVote::Notar(x) => x,
        _ => unreachable!(),
    };
    let nfv = |v: &usize| match typed_vote(VoteId { v: *v, kind: VK::NotarFallback, slot, tag }) {
        TypedVote::NotarFallback(x) => x,
        _ => unreachable!(),
    };
    let sv = |v: &usize| match typed_vote(VoteId { v: *v, kind: VK::Skip, slot, tag: 0 }) {
        TypedVote::Skip(x) => x,
        _ => unreachable!(),
    };
    let sfv = |v: &usize| match typed_vote(VoteId { v: *v, kind: VK::SkipFallback, slot, tag: 0 }) {
        TypedVote::SkipFallback(x) => x,
        _ => unreachable!(),
    };
    let fv = |v: &usize| match typed_vote(VoteId { v: *v, kind: VK::Final, slot, tag: 0 }) {
        TypedVote::Final(x) => x,
        _ => unreachable!(),
    };
    if primary.is_empty() && fallback.is_empty() {
        return None;
    }
    Some(match ck {
        CK::Notar => {
            if primary.is_empty() {
                return None;
            }
            Cert::Notar(NotarCert::try_new(&primary.iter().map(nv).collect::<Vec<_>>(), validators).ok()?)
        }
        CK::FastFinal => {
            if primary.is_empty() {
                return None;
            }
            Cert::FastFinal(FastFinalCert::try_new(&primary.iter().map(nv).collect::<Vec<_>>(), validators).ok()?)
        }
        CK::NotarFallback => Cert::NotarFallback(
            NotarFallbackCert::try_new(
                &primary.iter().map(nv).collect::<Vec<_>>(),
                &fallback.iter().map(nfv).collect::<Vec<_>>(),
                validators,
            )
            .ok()?,
        ),
        CK::Skip => Cert::Skip(
            SkipCert::try_new(&primary.iter().map(sv).collect::<Vec<_>>(), &fallback.iter().map(sfv).collect::<Vec<_>>(), validators).ok()?,
        ),
        CK::Final => {
            if primary.is_empty() {
                return None;
            }
            Cert::Final(FinalCert::try_new(&primary.iter().map(fv).collect::<Vec<_>>(), validators).ok()?)
        }
    })
}

type CertCache = HashMap<(Vec<u8>, Vec<u64>), bool>;
static CERT_VALID: OnceLock<Mutex<CertCache>> = OnceLock::new();

/// `ValidatedCert::try_new` verdict, memoised by (certificate bytes, stake vector).
pub fn cert_valid(cert: &Cert, epoch: &EpochInfo, stakes: &[u64]) -> bool {
    let key = (wincode::serialize(cert).expect("serialize cert"), stakes.to_vec());
    let m = CERT_VALID.get_or_init(|| Mutex::new(HashMap::new()));
    if let Some(v) = m.lock().unwrap().get(&key) {
        return *v;
    }
    let ok = ValidatedCert::try_new(cert.clone(), epoch).is_ok();
    let mut g = m.lock().unwrap();
    if g.len() > 400_000 {
        g.clear();
    }
    g.insert(key, ok);
    ok
}

pub fn ck_of(c: &Cert) -> CK {
    match c {
        Cert::Notar(_) => CK::Notar,
        Cert::NotarFallback(_) => CK::NotarFallback,
        Cert::Skip(_) => CK::Skip,
        Cert::FastFinal(_) => CK::FastFinal,
        Cert::Final(_) => CK::Final,
    }
}

pub fn cert_key(c: &Cert) -> (u64, CK, u64) {
    let slot = c.slot().inner();
    let tag = c.block_hash().map_or(0, |h| blk_of(slot, h).1);
    (slot, ck_of(c), tag)
}

#[derive(Debug, Default)]
pub struct StepOut {
    pub certs: Vec<Cert>,
    pub parent_ready: Vec<(u64, Blk)>,
    pub s2n: Vec<Blk>,
    pub s2s: Vec<u64>,
    pub standstill: Vec<(u64, Vec<Cert>, Vec<Vote>)>,
    pub repairs: Vec<Blk>,
    pub fin_direct: Vec<Blk>,
    pub fin_implicit: Vec<Blk>,
    pub fin_skipped: Vec<u64>,
}

pub struct PoolHarness {
    pub n: usize,
    pub own: usize,
    pub stakes: Vec<u64>,
    pub epoch: EpochInfo,
    pub vepoch: Arc<ValidatorEpochInfo>,
    pub pool: PoolImpl,
    ev_rx: mpsc::Receiver<PoolEvent>,
    rep_rx: mpsc::Receiver<BlockId>,
    rt: tokio::runtime::Runtime,
    /// every event the pool emitted so far, in order (input of the Votor forwarding probe)
    pub event_log: Vec<PoolEvent>,
}

impl PoolHarness {
    pub fn new(stakes: &[u64], own: usize) -> Self {
        let epoch = keys::epoch(stakes);
        let vepoch = keys::vepoch(own, stakes);
        let (ev_tx, ev_rx) = mpsc::channel(4096);
        let (rep_tx, rep_rx) = mpsc::channel(4096);
        let pool = PoolImpl::new(vepoch.clone(), ev_tx, rep_tx);
        let rt = tokio::runtime::Builder::new_current_thread().build().expect("rt");
        let _ = take_finalization_log();
        Self { n: stakes.len(), own, stakes: stakes.to_vec(), epoch, vepoch, pool, ev_rx, rep_rx, rt, event_log: Vec::new() }
    }

    pub fn add_vote(&mut self, id: VoteId) -> Result<(), AddVoteError> {
        let v = validated_vote(id);
        self.rt.block_on(self.pool.add_vote(v))
    }

    /// Returns Err(()) if the certificate does not pass `ValidatedCert::try_new`, else the pool's verdict.
    pub fn add_cert(&mut self, cert: Cert) -> Result<Result<(), String>, ()> {
        // validation cost is paid once per distinct certificate through the memo
        if !cert_valid(&cert, &self.epoch, &self.stakes) {
            return Err(());
        }
        let v = ValidatedCert::try_new(cert, &self.epoch).map_err(|_| ())?;
        Ok(self.rt.block_on(self.pool.add_cert(v)).map_err(|e| format!("{e:?}")))
    }

    pub fn add_block(&mut self, b: Blk, parent: Blk) {
        self.rt.block_on(self.pool.add_block(id_of(b), id_of(parent)));
    }

    pub fn standstill(&mut self) {
        self.rt.block_on(self.pool.recover_from_standstill());
    }

    pub fn drain(&mut self) -> StepOut {
        let mut out = StepOut::default();
        while let Ok(ev) = self.ev_rx.try_recv() {
            self.event_log.push(ev.clone());
            match ev {
                PoolEvent::CertCreated(c) => out.certs.push(c),
                PoolEvent::ParentReady { slot, parent } => out.parent_ready.push((slot.inner(), blk_of(parent.0.inner(), &parent.1))),
                PoolEvent::SafeToNotar((s, h)) => out.s2n.push(blk_of(s.inner(), &h)),
                PoolEvent::SafeToSkip(s) => out.s2s.push(s.inner()),
                PoolEvent::Standstill(s, c, v) => out.standstill.push((s.inner(), c, v)),
            }
        }
        while let Ok((s, h)) = self.rep_rx.try_recv() {
            out.repairs.push(blk_of(s.inner(), &h));
        }
        for rec in take_finalization_log() {
            match rec.kind {
                FinalizationKind::Finalized(s, h) => out.fin_direct.push(blk_of(s.inner(), &h)),
                FinalizationKind::ImplicitlyFinalized(s, h) => out.fin_implicit.push(blk_of(s.inner(), &h)),
                FinalizationKind::ImplicitlySkipped(s) => out.fin_skipped.push(s.inner()),
                FinalizationKind::BlockRegistered(..) => {}
            }
        }
        out
    }

    pub fn pool_wait(&mut self, slot: u64) -> either::Either<Blk, tokio::sync::oneshot::Receiver<BlockId>> {
        match self.pool.wait_for_parent_ready(Slot::new(slot)) {
            either::Either::Left((s, h)) => either::Either::Left(blk_of(s.inner(), &h)),
            either::Either::Right(rx) => either::Either::Right(rx),
        }
    }

    pub fn parents_ready(&self, slot: u64) -> BTreeSet<Blk> {
        self.pool.parents_ready(Slot::new(slot)).iter().map(|(s, h)| blk_of(s.inner(), h)).collect()
    }

    pub fn finalized_slot(&self) -> u64 {
        self.pool.finalized_slot().inner()
    }

    pub fn watermark(&self) -> u64 {
        self.pool.verif_first_unpruned_slot().inner()
    }
}

/// Feeds a standstill bundle to a fresh pool of the same validator and returns it.
pub fn fresh_pool_from_bundle(stakes: &[u64], own: usize, certs: &[Cert], votes: &[Vote]) -> Result<PoolHarness, String> {
    let mut h = PoolHarness::new(stakes, own);
    for c in certs {
        if !cert_valid(c, &h.epoch, stakes) {
            return Err(format!("bundle certificate fails validation: {:?} slot {}", ck_of(c), c.slot()));
        }
        let v = ValidatedCert::try_new(c.clone(), &h.epoch).map_err(|e| format!("{e:?}"))?;
        let _ = h.rt.block_on(h.pool.add_cert(v));
    }
    for v in votes {
        let vv = ValidatedVote::try_new(v.clone(), &h.epoch).map_err(|e| format!("bundle vote fails validation: {e:?}"))?;
        let _ = h.rt.block_on(h.pool.add_vote(vv));
    }
    let _ = h.drain();
    Ok(h)
}

pub fn vote_id_of(v: &Vote) -> VoteId {
    let slot = v.slot().inner();
    let (kind, tag) = match v {
        Vote::Notar(x) => (VK::Notar, blk_of(slot, x.block_hash()).1),
        Vote::NotarFallback(x) => (VK::NotarFallback, blk_of(slot, x.block_hash()).1),
        Vote::Skip(_) => (VK::Skip, 0),
        Vote::SkipFallback(_) => (VK::SkipFallback, 0),
        Vote::Final(_) => (VK::Final, 0),
    };
    VoteId { v: v.signer().as_usize(), kind, slot, tag }
}

pub type CertSet = BTreeMap<(u64, CK), BTreeSet<u64>>;

pub fn certset_insert(cs: &mut CertSet, key: (u64, CK, u64)) -> bool {
    cs.entry((key.0, key.1)).or_default().insert(key.2)
}

/// An `All2All` that records what is broadcast and never receives anything.
pub struct RecordingAll2All {
    pub log: std::sync::Mutex<Vec<Vec<u8>>>,
}

impl alpenglow::All2All for RecordingAll2All {
    async fn broadcast(&self, msg: &alpenglow::consensus::ConsensusMessage) -> std::io::Result<()> {
        self.log.lock().unwrap().push(wincode::serialize(msg).expect("ser"));
        Ok(())
    }
    async fn receive(&self) -> std::io::Result<alpenglow::consensus::ConsensusMessage> {
        std::future::pending().await
    }
}

/// C18, forwarding half: a real `Votor` that has seen every event the pool emitted so far (so its
/// own pruning state is whatever those events make it) is handed the standstill bundle and must
/// broadcast every certificate and every vote in it.
///
/// Returns `Ok(None)` if everything was forwarded, `Ok(Some(what))` naming the first missing item,
/// `Err(())` if the probe is inconclusive (the Votor task ended or panicked in this artificial wiring,
/// where its own votes do not loop back into the pool).
pub fn votor_forwards_bundle(h: &PoolHarness, ev_slot: u64, certs: &[Cert], votes: &[Vote]) -> Result<Option<String>, ()> {
    use alpenglow::consensus::{ConsensusMessage, Votor};
    let before: Vec<PoolEvent> = {
        // everything up to (excluding) the last Standstill event
        let cut = h.event_log.iter().rposition(|e| matches!(e, PoolEvent::Standstill(..))).unwrap_or(h.event_log.len());
        h.event_log[..cut].to_vec()
    };
    let bundle = PoolEvent::Standstill(Slot::new(ev_slot), certs.to_vec(), votes.to_vec());
    let own = h.own;
    let rt = tokio::runtime::Builder::new_current_thread().enable_time().start_paused(true).build().expect("rt");
    let res = std::panic::catch_unwind(std::panic::AssertUnwindSafe(|| {
        rt.block_on(async move {
            let a2a = Arc::new(RecordingAll2All { log: std::sync::Mutex::new(Vec::new()) });
            let (pool_tx, pool_rx) = mpsc::channel::<PoolEvent>(before.len() + 16);
            let (_bs_tx, bs_rx) = mpsc::channel(16);
            let mut votor = Votor::new(ValidatorIndex::new(own as u64), keys::keypair(own).vsk.clone(), pool_rx, bs_rx, a2a.clone());
            let task = tokio::spawn(async move { votor.voting_loop().await });
            let max = pool_tx.max_capacity();
            for e in before {
                let _ = pool_tx.send(e).await;
            }
            // no timer is allowed to fire: only yield, never sleep
            for _ in 0..10_000 {
                if pool_tx.capacity() == max {
                    break;
                }
                tokio::task::yield_now().await;
            }
            for _ in 0..50 {
                tokio::task::yield_now().await;
            }
            if task.is_finished() {
                return Err(());
            }
            let mark = a2a.log.lock().unwrap().len();
            let _ = pool_tx.send(bundle).await;
            for _ in 0..10_000 {
                if pool_tx.capacity() == max || task.is_finished() {
                    break;
                }
                tokio::task::yield_now().await;
            }
            for _ in 0..50 {
                tokio::task::yield_now().await;
            }
            if task.is_finished() {
                // the voting task survived everything the pool emitted before and died on the bundle
                let sent: Vec<Vec<u8>> = a2a.log.lock().unwrap()[mark..].to_vec();
                return Ok((sent, true));
            }
            let sent: Vec<Vec<u8>> = a2a.log.lock().unwrap()[mark..].to_vec();
            task.abort();
            Ok((sent, false))
        })
    }));
    let (sent, died_on_bundle) = match res {
        Ok(Ok(s)) => s,
        Ok(Err(())) => {
            let _ = kernel::take_panics();
            return Err(());
        }
        Err(_) => {
            let _ = kernel::take_panics();
            return Err(());
        }
    };
    if died_on_bundle {
        let ps = kernel::take_panics();
        let what = ps.last().map_or("the task ended".to_string(), |p| format!("{} @ {}", p.message, p.location));
        return Ok(Some(format!("anything more: the voting task died while handling the bundle ({what}), after {} broadcasts", sent.len())));
    }
    let mut pool: Vec<Vec<u8>> = sent;
    for c in certs {
        let b = wincode::serialize(&ConsensusMessage::Cert(c.clone())).expect("ser");
        match pool.iter().position(|x| *x == b) {
            Some(i) => {
                pool.remove(i);
            }
            None => return Ok(Some(format!("certificate {:?} for slot {}", ck_of(c), c.slot()))),
        }
    }
    for v in votes {
        let b = wincode::serialize(&ConsensusMessage::Vote(v.clone())).expect("ser");
        match pool.iter().position(|x| *x == b) {
            Some(i) => {
                pool.remove(i);
            }
            None => return Ok(Some(format!("own vote {:?}", vote_id_of(v)))),
        }
    }
    Ok(None)
}
