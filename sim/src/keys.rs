//! Deterministic validator identities and stake distributions.
//!
//! Keys are derived from a fixed constant (not from the run seed), so signatures can be memoised
//! across runs of one process and are identical across processes — a prerequisite for replay.

use std::sync::{Arc, Mutex, OnceLock};

use alpenglow::consensus::{EpochInfo, ValidatorEpochInfo};
use alpenglow::crypto::{aggsig, signature};
use alpenglow::{Stake, ValidatorIndex, ValidatorInfo};
use rand::prelude::*;

use crate::kernel;
use crate::net::{Iface, addr_of};

pub struct KeyPair {
    pub sk: signature::SecretKey,
    pub vsk: aggsig::SecretKey,
    pub pk: signature::PublicKey,
    pub vpk: aggsig::PublicKey,
}

static KEYS: OnceLock<Mutex<Vec<Arc<KeyPair>>>> = OnceLock::new();

/// Key pair of validator `i` (same in every run and every process).
pub fn keypair(i: usize) -> Arc<KeyPair> {
    let m = KEYS.get_or_init(|| Mutex::new(Vec::new()));
    let mut v = m.lock().unwrap();
    while v.len() <= i {
        let idx = v.len() as u64;
        let mut seed = [0u8; 32];
        seed[0..8].copy_from_slice(&idx.to_le_bytes());
        seed[8..24].copy_from_slice(b"agsim-validator!");
        let mut rng = StdRng::from_seed(seed);
        let sk = signature::SecretKey::new(&mut rng);
        let vsk = aggsig::SecretKey::new(&mut rng);
        let pk = sk.to_pk();
        let vpk = vsk.to_pk();
        v.push(Arc::new(KeyPair { sk, vsk, pk, vpk }));
    }
    v[i].clone()
}

pub fn validator_infos(stakes: &[u64]) -> Vec<ValidatorInfo> {
    stakes
        .iter()
        .enumerate()
        .map(|(i, s)| {
            let kp = keypair(i);
            ValidatorInfo {
                id: ValidatorIndex::new(i as u64),
                stake: Stake::new(*s),
                pubkey: kp.pk,
                voting_pubkey: kp.vpk,
                all2all_address: addr_of(i, Iface::A2A),
                disseminator_address: addr_of(i, Iface::Dissem),
                repair_requester_address: addr_of(i, Iface::RepairReq),
                repair_responder_address: addr_of(i, Iface::RepairResp),
            }
        })
        .collect()
}

pub fn epoch(stakes: &[u64]) -> EpochInfo {
    EpochInfo::new(validator_infos(stakes))
}

pub fn vepoch(own: usize, stakes: &[u64]) -> Arc<ValidatorEpochInfo> {
    Arc::new(ValidatorEpochInfo::new(ValidatorIndex::new(own as u64), epoch(stakes)))
}

/// Draws a stake distribution for `n` validators from the `config` stream.
///
/// Kinds: equal; small skewed integers; one whale just below a threshold; stakes summing to 100
/// with subsets landing exactly on 20/40/60/80 %; heavy tail.
pub fn draw_stakes(n: usize, stream: &str) -> (Vec<u64>, &'static str) {
    match kernel::choose(stream, 5) {
        0 => (vec![1; n], "equal"),
        1 => ((0..n).map(|i| 1 + (i as u64 % 3)).collect(), "skewed_small"),
        2 => {
            // whale holding just under a threshold fraction of the total
            let others = (n - 1) as u64 * 10;
            let frac = [19u64, 39, 59][kernel::choose(stream, 3) as usize];
            // whale / (whale + others) ~ frac% (rounded down => just under)
            let whale = (others * frac) / (100 - frac);
            let mut v = vec![10u64; n];
            v[kernel::choose(stream, n as u64) as usize] = whale.max(1);
            (v, "whale_under_threshold")
        }
        3 if n <= 20 => {
            // multiples of 5 summing to 100: subset sums land exactly on 20/40/60/80
            let mut v = vec![0u64; n];
            let mut left = 100u64;
            for i in 0..n {
                let remaining = (n - i) as u64;
                if i == n - 1 {
                    v[i] = left;
                } else {
                    let max_units = (left / 5).saturating_sub(remaining - 1).max(1);
                    let take = 5 * (1 + kernel::choose(stream, max_units.min(6)));
                    v[i] = take.min(left - 5 * (remaining - 1));
                    left -= v[i];
                }
            }
            (v, "exact_thresholds_100")
        }
        _ => {
            let v = (0..n).map(|i| if i == 0 { 1 + kernel::choose(stream, 40) } else { 1 + kernel::choose(stream, 8) }).collect();
            (v, "heavy_tail")
        }
    }
}
