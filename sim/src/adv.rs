//! Byzantine validators (< 20 % stake, holding their real keys), operated by the harness.
//!
//! They see all traffic (through the observer's view of the wire taps) and may send anything to
//! anyone at any time. All of their choices come from the `adv` decision stream, where `0` is
//! always "do nothing".

use std::cell::RefCell;
use std::collections::{BTreeMap, BTreeSet};
use std::rc::Rc;
use std::time::Duration;

use alpenglow::consensus::{ConsensusMessage, Vote};
use alpenglow::crypto::merkle::{BlockHash, GENESIS_BLOCK_HASH};
use alpenglow::types::SLOTS_PER_WINDOW;
use alpenglow::types::Slot;
use alpenglow::{BlockId, ValidatorIndex};

use crate::cluster::{ClusterCfg, Profile, Role};
use crate::kernel;
use crate::keys;
use crate::net::{Iface, SharedNet, port_of};
use crate::oracle::{CertKind, Observer};
use crate::wire;

const ADV: &str = "adv";

#[derive(Clone, Copy, Debug, PartialEq, Eq)]
pub enum VoterStrategy {
    Silent,
    /// supports every certificate that could form: all vote kinds for every block seen, to everyone
    Promiscuous,
    /// notar(A) to one half of the correct nodes, notar(B)/skip to the other half
    Split,
    /// behaves like a correct voter would (notar first block, final), but late
    Late,
    /// skip to every correct node but one, notar (and final) to that one: pushes the notarizers
    /// towards safe-to-skip while one node can still assemble a fast-finalization
    SkipToMostNotarToOne,
}

#[derive(Clone, Copy, Debug, PartialEq, Eq)]
pub enum LeaderStrategy {
    Silent,
    /// one well-formed block per slot
    Single,
    /// two different blocks per slot to disjoint groups of nodes
    Equivocate,
    /// two blocks per slot, shreds of both sent to everyone (equivocation detectable)
    EquivocateMixed,
    /// validly signed but malformed blocks (C10): parent in the future, first slice without parent,
    /// undecodable transactions, contradictory last flags, parent switched twice / to itself, ...
    Malformed,
    /// a whole window of single blocks, except that in its last slot the next window's leader gets
    /// one block and everybody else another (which is the one that gets certified): the next leader
    /// has optimistically started on a parent that never becomes ready
    HandoverSplit,
}

#[derive(Clone, Debug)]
pub struct ByzCfg {
    pub nodes: Vec<usize>,
    pub voter: VoterStrategy,
    pub leader: LeaderStrategy,
    pub tick_ms: u64,
    /// assignment of nodes to the two sides of a split-brain attack
    pub side: Vec<u8>,
    /// cert injector: forward every valid certificate seen to a chosen subset early
    pub cert_injector: bool,
}

pub fn draw_byz_cfg(_p: &Profile, byz_nodes: &[usize], n: usize) -> ByzCfg {
    const CFG: &str = "config";
    if byz_nodes.is_empty() {
        return ByzCfg {
            nodes: vec![],
            voter: VoterStrategy::Silent,
            leader: LeaderStrategy::Silent,
            tick_ms: 50,
            side: vec![0; n],
            cert_injector: false,
        };
    }
    let voter = [VoterStrategy::Silent, VoterStrategy::Promiscuous, VoterStrategy::Split, VoterStrategy::Promiscuous, VoterStrategy::Late, VoterStrategy::SkipToMostNotarToOne]
        [kernel::choose(CFG, 6) as usize];
    let leader = if _p.hostile && kernel::choose(CFG, 2) == 1 {
        LeaderStrategy::Malformed
    } else {
        [LeaderStrategy::Silent, LeaderStrategy::Equivocate, LeaderStrategy::Single, LeaderStrategy::EquivocateMixed, LeaderStrategy::Equivocate, LeaderStrategy::HandoverSplit, LeaderStrategy::HandoverSplit][kernel::choose(CFG, 7) as usize]
    };
    let mut side = vec![0u8; n];
    let mut k = kernel::choose(CFG, 2) as u8;
    for s in side.iter_mut() {
        *s = k % 2;
        k += 1;
    }
    ByzCfg {
        nodes: byz_nodes.to_vec(),
        voter,
        leader,
        tick_ms: 10 + kernel::choose(CFG, 5) * 20,
        side,
        cert_injector: kernel::choose(CFG, 3) == 1,
    }
}

pub struct AdvShared {
    pub observer: Option<Rc<RefCell<Observer>>>,
}

impl AdvShared {
    pub fn new(_cfg: &ClusterCfg, _net: SharedNet) -> Self {
        Self { observer: None }
    }
}

struct Adv {
    cfg: ClusterCfg,
    net: SharedNet,
    /// blocks known per slot (from notar votes on the wire and own production)
    blocks: BTreeMap<Slot, Vec<BlockHash>>,
    voted: BTreeSet<(usize, Slot, usize)>,
    votes_cursor: Vec<usize>,
    certs_cursor: usize,
    produced_windows: BTreeSet<u64>,
    /// own chains: window -> (chain A tip, chain B tip)
    late_queue: Vec<(u64, usize, Vec<u8>, Vec<usize>)>,
    injected: BTreeSet<Vec<u8>>,
}

fn all_targets_of(cfg: &ClusterCfg) -> Vec<usize> {
    (0..cfg.n).filter(|i| cfg.roles[*i] == Role::Correct).collect()
}

fn vote_bytes(v: Vote) -> Vec<u8> {
    wincode::serialize(&ConsensusMessage::Vote(v)).expect("serialize vote")
}

impl Adv {
    fn targets_all(&self) -> Vec<usize> {
        (0..self.cfg.n).filter(|i| self.cfg.roles[*i] == Role::Correct).collect()
    }

    fn targets_side(&self, side: u8) -> Vec<usize> {
        (0..self.cfg.n).filter(|i| self.cfg.roles[*i] == Role::Correct && self.cfg.byz.side[*i] == side).collect()
    }

    fn send_a2a(&self, from: usize, bytes: &[u8], to: &[usize]) {
        let mut net = self.net.lock().unwrap();
        for t in to {
            net.inject(port_of(from, Iface::A2A), port_of(*t, Iface::A2A), bytes.to_vec(), None);
        }
        kernel::fault("byzantine_vote_or_cert_sent");
    }

    fn learn_blocks(&mut self, obs: &Observer) {
        for node in 0..obs.n {
            let vs = &obs.votes_by_node[node];
            for v in &vs[self.votes_cursor[node]..] {
                if let Some(h) = &v.hash {
                    let e = self.blocks.entry(v.slot).or_default();
                    if !e.contains(h) {
                        e.push(h.clone());
                    }
                }
            }
            self.votes_cursor[node] = vs.len();
        }
    }

    fn voter_tick(&mut self) {
        let strategy = self.cfg.byz.voter;
        if strategy == VoterStrategy::Silent {
            return;
        }
        let slots: Vec<(Slot, Vec<BlockHash>)> = self.blocks.iter().map(|(s, h)| (*s, h.clone())).collect();
        for (slot, hashes) in slots {
            for (bi, hash) in hashes.iter().enumerate() {
                for b in self.cfg.byz.nodes.clone() {
                    if !self.voted.insert((b, slot, bi)) {
                        continue;
                    }
                    // 0 = stay idle for this (validator, slot, block)
                    if kernel::choose(ADV, 8) == 0 {
                        continue;
                    }
                    let kp = keys::keypair(b);
                    let me = ValidatorIndex::new(b as u64);
                    let all = self.targets_all();
                    match strategy {
                        VoterStrategy::Promiscuous => {
                            let notar = vote_bytes(Vote::new_notar(slot, hash.clone(), &kp.vsk, me));
                            let nf = vote_bytes(Vote::new_notar_fallback(slot, hash.clone(), &kp.vsk, me));
                            let skip = vote_bytes(Vote::new_skip(slot, &kp.vsk, me));
                            let sf = vote_bytes(Vote::new_skip_fallback(slot, &kp.vsk, me));
                            let fin = vote_bytes(Vote::new_final(slot, &kp.vsk, me));
                            // order of the five kinds differs per target: every arrival order is explored
                            for t in &all {
                                let mut msgs = vec![&notar, &nf, &skip, &sf, &fin];
                                let rot = kernel::choose(ADV, 5) as usize;
                                msgs.rotate_left(rot);
                                for m in msgs {
                                    self.send_a2a(b, m, &[*t]);
                                }
                            }
                        }
                        VoterStrategy::Split => {
                            let side = (bi % 2) as u8;
                            let notar = vote_bytes(Vote::new_notar(slot, hash.clone(), &kp.vsk, me));
                            self.send_a2a(b, &notar, &self.targets_side(side));
                            if hashes.len() == 1 {
                                let skip = vote_bytes(Vote::new_skip(slot, &kp.vsk, me));
                                self.send_a2a(b, &skip, &self.targets_side(1 - side));
                            }
                            let fin = vote_bytes(Vote::new_final(slot, &kp.vsk, me));
                            self.send_a2a(b, &fin, &all);
                        }
                        VoterStrategy::Late => {
                            if bi == 0 {
                                let at = kernel::now_ms() + 200 + kernel::choose(ADV, 20) * 100;
                                let notar = vote_bytes(Vote::new_notar(slot, hash.clone(), &kp.vsk, me));
                                let fin = vote_bytes(Vote::new_final(slot, &kp.vsk, me));
                                self.late_queue.push((at, b, notar, all.clone()));
                                self.late_queue.push((at + 50, b, fin, all));
                            }
                        }
                        VoterStrategy::SkipToMostNotarToOne => {
                            if bi == 0 && !all.is_empty() {
                                let one = all[kernel::choose(ADV, all.len() as u64) as usize];
                                let rest: Vec<usize> = all.iter().copied().filter(|x| *x != one).collect();
                                let notar = vote_bytes(Vote::new_notar(slot, hash.clone(), &kp.vsk, me));
                                let skip = vote_bytes(Vote::new_skip(slot, &kp.vsk, me));
                                let fin = vote_bytes(Vote::new_final(slot, &kp.vsk, me));
                                self.send_a2a(b, &skip, &rest);
                                self.send_a2a(b, &notar, &[one]);
                                self.send_a2a(b, &fin, &[one]);
                            }
                        }
                        VoterStrategy::Silent => {}
                    }
                }
            }
        }
        let now = kernel::now_ms();
        let due: Vec<_> = self.late_queue.iter().filter(|q| q.0 <= now).cloned().collect();
        self.late_queue.retain(|q| q.0 > now);
        for (_, b, bytes, to) in due {
            self.send_a2a(b, &bytes, &to);
        }
    }

    fn cert_injector_tick(&mut self, obs: &Observer) {
        if !self.cfg.byz.cert_injector || self.cfg.byz.nodes.is_empty() {
            self.certs_cursor = obs.certs.len();
            return;
        }
        // re-deliver valid certificates selectively (one node only / one side only), possibly early
        let b = self.cfg.byz.nodes[0];
        let net_taps: Vec<(usize, Vec<u8>)> = {
            let net = self.net.lock().unwrap();
            obs.certs[self.certs_cursor..]
                .iter()
                .filter(|c| c.valid && c.from < self.cfg.n && self.cfg.roles[c.from] == Role::Correct)
                .filter_map(|c| net.taps.iter().rev().find(|t| t.seq == c.seq).map(|t| (c.from, t.bytes.as_ref().clone())))
                .collect()
        };
        self.certs_cursor = obs.certs.len();
        for (_, bytes) in net_taps {
            // each distinct certificate is re-delivered at most once
            if !self.injected.insert(bytes.clone()) {
                continue;
            }
            match kernel::choose(ADV, 4) {
                0 => {}
                1 => {
                    let all = self.targets_all();
                    if !all.is_empty() {
                        let t = all[kernel::choose(ADV, all.len() as u64) as usize];
                        self.send_a2a(b, &bytes, &[t]);
                    }
                }
                2 => self.send_a2a(b, &bytes, &self.targets_side(0)),
                _ => self.send_a2a(b, &bytes, &self.targets_all()),
            }
        }
    }

    /// Parent choice of a Byzantine leader for window starting at `first`.
    fn choose_parent(&self, obs: &Observer, first: Slot) -> BlockId {
        let certified = obs.certified_blocks();
        // highest certified block below `first`, preferring skip-connected ones
        let mut best: Option<BlockId> = None;
        for (s, h) in certified.iter().rev() {
            if *s >= first {
                continue;
            }
            let connected = (s.inner() + 1..first.inner()).all(|x| obs.skip_certified.contains_key(&Slot::new(x)));
            if connected {
                return (*s, h.clone());
            }
            if best.is_none() {
                best = Some((*s, h.clone()));
            }
        }
        // otherwise: the most recent block anyone voted for, else genesis
        if kernel::choose(ADV, 2) == 1
            && let Some((s, hs)) = self.blocks.range(..first).next_back()
        {
            return (*s, hs[0].clone());
        }
        best.unwrap_or((Slot::genesis(), GENESIS_BLOCK_HASH))
    }

    fn leader_tick(&mut self, obs: &Observer) {
        let strategy = self.cfg.byz.leader;
        if strategy == LeaderStrategy::Silent {
            return;
        }
        let n = self.cfg.n as u64;
        // highest slot with any activity on the wire
        let top = self.blocks.keys().next_back().map_or(0, |s| s.inner()).max(obs.skip_certified.keys().next_back().map_or(0, |s| s.inner()));
        let cur_window = (top + 1) / SLOTS_PER_WINDOW;
        for w in cur_window..=cur_window + 1 {
            if w == 0 || self.produced_windows.contains(&w) {
                continue;
            }
            let leader = (w % n) as usize;
            if self.cfg.roles[leader] != Role::Byzantine {
                continue;
            }
            let first = Slot::new(w * SLOTS_PER_WINDOW);
            // wait until the previous slot has seen a certificate or votes (the network reached us)
            let reached = top + 1 >= first.inner();
            if !reached {
                continue;
            }
            // 0 = not yet
            if kernel::choose(ADV, 3) == 0 {
                continue;
            }
            self.produced_windows.insert(w);
            kernel::fault("byzantine_leader_window");
            let kp = keys::keypair(leader);
            let parent = self.choose_parent(obs, first);
            let mut tip_a = parent.clone();
            let mut tip_b = parent;
            let slots_to_produce = if strategy == LeaderStrategy::HandoverSplit { SLOTS_PER_WINDOW } else { 1 + kernel::choose(ADV, SLOTS_PER_WINDOW) };
            for k in 0..slots_to_produce {
                let slot = Slot::new(first.inner() + k);
                let n_slices = 1 + kernel::choose(ADV, 3) as usize;
                let a = wire::simple_block(slot, tip_a.clone(), n_slices, 0xA000 + slot.inner(), &kp.sk);
                let all = self.targets_all();
                match strategy {
                    LeaderStrategy::HandoverSplit if k + 1 == SLOTS_PER_WINDOW => {
                        let next_leader = ((w + 1) % n) as usize;
                        // same parent as the other block: the one everybody notarized in the slot before
                        let b = wire::simple_block(slot, tip_a.clone(), n_slices, 0xB000 + slot.inner(), &kp.sk);
                        let only_next: Vec<usize> = all.iter().copied().filter(|i| *i == next_leader).collect();
                        let others: Vec<usize> = all.iter().copied().filter(|i| *i != next_leader).collect();
                        self.send_block(leader, &a, &only_next, k * 60);
                        self.send_block(leader, &b, &others, k * 60);
                        kernel::fault("byzantine_leader_handover_split");
                        // the Byzantine validators help the majority's block to its certificate
                        for &bz in &self.cfg.byz.nodes.clone() {
                            let kpb = keys::keypair(bz);
                            let me = alpenglow::ValidatorIndex::new(bz as u64);
                            for blk in [&b] {
                                let notar = vote_bytes(Vote::new_notar(slot, blk.hash.clone(), &kpb.vsk, me));
                                self.send_a2a(bz, &notar, &all);
                            }
                            // and vote for the rest of their own window
                            for (ps, hs) in self.blocks.range(first..slot).map(|(s, h)| (*s, h.clone())).collect::<Vec<_>>() {
                                let notar = vote_bytes(Vote::new_notar(ps, hs[0].clone(), &kpb.vsk, me));
                                self.send_a2a(bz, &notar, &all);
                            }
                        }
                        let e = self.blocks.entry(slot).or_default();
                        // the block the majority got first: the Byzantine voters vote for it
                        e.push(b.hash.clone());
                        e.push(a.hash.clone());
                        tip_a = (slot, a.hash.clone());
                        tip_b = (slot, b.hash.clone());
                    }
                    LeaderStrategy::Single | LeaderStrategy::HandoverSplit => {
                        self.send_block(leader, &a, &all, k * 60);
                        self.blocks.entry(slot).or_default().push(a.hash.clone());
                        tip_a = (slot, a.hash.clone());
                    }
                    LeaderStrategy::Equivocate | LeaderStrategy::EquivocateMixed => {
                        let b = wire::simple_block(slot, tip_b.clone(), n_slices, 0xB000 + slot.inner(), &kp.sk);
                        let (ta, tb) = if strategy == LeaderStrategy::Equivocate {
                            (self.targets_side(0), self.targets_side(1))
                        } else {
                            (all.clone(), all.clone())
                        };
                        self.send_block(leader, &a, &ta, k * 60);
                        self.send_block(leader, &b, &tb, k * 60 + kernel::choose(ADV, 40));
                        kernel::fault("byzantine_leader_equivocation");
                        let e = self.blocks.entry(slot).or_default();
                        e.push(a.hash.clone());
                        e.push(b.hash.clone());
                        tip_a = (slot, a.hash.clone());
                        tip_b = (slot, b.hash.clone());
                    }
                    LeaderStrategy::Malformed => {
                        use crate::dissem::Malform;
                        let m = [
                            Malform::ParentNotEarlier, Malform::FirstWithoutParent, Malform::UndecodableTxs, Malform::ContradictoryLast,
                            Malform::ParentSwitchedTwice, Malform::ParentSwitchedToSelf, Malform::SliceAfterLast, Malform::ConflictingSlice, Malform::None,
                        ][kernel::choose(ADV, 9) as usize]
                            .clone();
                        let mut slices = crate::dissem::draw_block(slot.inner(), 3, &m);
                        // keep a plausible parent unless the malformation is about the parent
                        if !matches!(m, Malform::ParentNotEarlier | Malform::FirstWithoutParent) {
                            slices[0].parent = Some(tip_a.clone());
                        }
                        let mut shredder = alpenglow::shredder::RegularShredder::default();
                        use alpenglow::shredder::Shredder;
                        let mut all: Vec<alpenglow::shredder::ValidatedShred> = Vec::new();
                        for sl in &slices {
                            if let Ok(sh) = shredder.shred(sl, &kp.sk) {
                                all.extend(sh.to_vec());
                            }
                        }
                        if matches!(m, Malform::ContradictoryLast | Malform::ConflictingSlice) {
                            let mut s2 = slices[0].clone();
                            if m == Malform::ContradictoryLast {
                                s2.is_last = !s2.is_last;
                            } else {
                                s2.data = crate::wire::txs_payload(&[alpenglow::Transaction(vec![1, 2, 3])]);
                            }
                            if let Ok(sh) = shredder.shred(&s2, &kp.sk) {
                                all.extend(sh.to_vec());
                            }
                        }
                        kernel::fault("byzantine_leader_malformed_block");
                        kernel::event(&format!("byz leader {leader} malformed {m:?} slot {}", slot.inner()));
                        let mut net = self.net.lock().unwrap();
                        for s in &all {
                            let bytes = wire::shred_bytes(s.as_shred());
                            for t in &all_targets_of(&self.cfg) {
                                net.inject(port_of(leader, Iface::Dissem), port_of(*t, Iface::Dissem), bytes.clone(), None);
                            }
                        }
                    }
                    LeaderStrategy::Silent => {}
                }
            }
        }
    }

    fn send_block(&self, leader: usize, blk: &wire::BuiltBlock, to: &[usize], delay_ms: u64) {
        let mut net = self.net.lock().unwrap();
        for slice in &blk.shreds {
            for s in slice {
                let bytes = wire::shred_bytes(s.as_shred());
                for t in to {
                    // shreds go through the fault pipeline like everybody else's; `delay_ms` staggers slots
                    if delay_ms == 0 {
                        net.inject(port_of(leader, Iface::Dissem), port_of(*t, Iface::Dissem), bytes.clone(), None);
                    } else {
                        net.inject(port_of(leader, Iface::Dissem), port_of(*t, Iface::Dissem), bytes.clone(), Some(delay_ms + kernel::choose("adv.net", 30)));
                    }
                }
            }
        }
    }
}

pub async fn run_adversary(shared: AdvShared, cfg: ClusterCfg, net: SharedNet, profile: Profile) {
    kernel::set_task_name("adversary");
    let Some(observer) = shared.observer else { return };
    let n = cfg.n;
    let tick = cfg.byz.tick_ms.max(5);
    let mut adv = Adv {
        cfg,
        net,
        blocks: BTreeMap::new(),
        voted: BTreeSet::new(),
        votes_cursor: vec![0; n],
        certs_cursor: 0,
        produced_windows: BTreeSet::new(),
        late_queue: Vec::new(),
        injected: BTreeSet::new(),
    };
    let mut hostile = crate::hostile::Hostile::new(&adv.cfg, &profile);
    let mut last_window_done = !profile.hostile;
    loop {
        tokio::time::sleep(Duration::from_millis(tick)).await;
        // hostile profiles: a Byzantine validator that happens to lead the very last window of the slot
        // range (slots u64::MAX-3 ..= u64::MAX) signs two conflicting blocks for one of its slots there;
        // the blockstore takes shreds for any slot
        if !last_window_done && kernel::now_ms() >= 1_500 {
            last_window_done = true;
            let top_leader = ((u64::MAX / SLOTS_PER_WINDOW) % n as u64) as usize;
            if adv.cfg.byz.nodes.contains(&top_leader) {
                let slot = Slot::new(u64::MAX - kernel::choose(ADV, 4));
                let kp = keys::keypair(top_leader);
                let parent = (Slot::new(1), crate::wire::synth_hash(1, 1));
                let a = wire::simple_block(slot, parent.clone(), 1, 0xFA, &kp.sk);
                let b = wire::simple_block(slot, parent, 1, 0xFB, &kp.sk);
                let all = adv.targets_all();
                adv.send_block(top_leader, &a, &all, 0);
                adv.send_block(top_leader, &b, &all, 20);
                kernel::fault("byzantine_leader_equivocates_in_the_last_window");
            }
        }
        {
            let mut o = observer.borrow_mut();
            o.step();
        }
        let o = observer.borrow();
        adv.learn_blocks(&o);
        if !adv.cfg.byz.nodes.is_empty() {
            adv.voter_tick();
            adv.cert_injector_tick(&o);
            adv.leader_tick(&o);
        }
        hostile.tick(&adv.cfg, &adv.net, &o, &adv.blocks);
        let _ = CertKind::Notar;
    }
}
