//! Byte-level helpers for types whose fields are private to the crate under test.
//!
//! Everything here goes through the crate's own codecs (`wincode::serialize`,
//! `alpenglow::network::deserialize`); the few hand-written layouts (field offsets inside an
//! encoded shred / repair request) are checked against honest values by `self_check`.

use alpenglow::crypto::merkle::{BlockHash, DoubleMerkleTree};
use alpenglow::crypto::{Hash, signature};
use alpenglow::repair::RepairRequest;
use alpenglow::shredder::{RegularShredder, Shred, ShredIndex, Shredder, TOTAL_SHREDS, ValidatedShred};
use alpenglow::types::{Slice, SliceIndex};
use alpenglow::types::Slot;
use alpenglow::{BlockId, Transaction, ValidatorIndex};

pub fn slice_index(i: usize) -> Option<SliceIndex> {
    let bytes = (i as u64).to_le_bytes();
    wincode::deserialize::<SliceIndex>(&bytes).ok()
}

pub fn si(i: usize) -> SliceIndex {
    slice_index(i).expect("slice index in range")
}

pub fn block_hash_from(tag: &[u8]) -> BlockHash {
    let h: Hash = alpenglow::crypto::hash(tag);
    h.into()
}

pub fn synth_hash(slot: u64, tag: u64) -> BlockHash {
    let mut b = Vec::with_capacity(24);
    b.extend_from_slice(b"agsimblk");
    b.extend_from_slice(&slot.to_le_bytes());
    b.extend_from_slice(&tag.to_le_bytes());
    block_hash_from(&b)
}

pub fn txs_payload(txs: &[Transaction]) -> Vec<u8> {
    wincode::serialize(&txs.to_vec()).expect("serialize txs")
}

/// A block as produced by a (harness-operated) leader.
pub struct BuiltBlock {
    pub slot: Slot,
    pub hash: BlockHash,
    pub parent: BlockId,
    pub slices: Vec<Slice>,
    pub shreds: Vec<Vec<ValidatedShred>>,
    pub tree: DoubleMerkleTree,
}

/// Shreds the given slices with the leader's key and computes the block hash.
pub fn build_block(slices: Vec<Slice>, sk: &signature::SecretKey) -> Option<BuiltBlock> {
    let mut shredder = RegularShredder::default();
    let mut shreds = Vec::new();
    for s in &slices {
        shreds.push(shredder.shred(s, sk).ok()?.to_vec());
    }
    let roots: Vec<_> = shreds.iter().map(|s| s[0].slice_root().clone()).collect();
    let tree = DoubleMerkleTree::new(roots.iter());
    let hash = tree.get_root();
    let slot = slices[0].slot;
    let mut parent = slices[0].parent.clone()?;
    for s in slices.iter().skip(1) {
        if let Some(p) = &s.parent {
            parent = p.clone();
        }
    }
    Some(BuiltBlock { slot, hash, parent, slices, shreds, tree })
}

/// A simple well-formed block: `n_slices` slices, `tag` makes the content unique.
pub fn simple_block(slot: Slot, parent: BlockId, n_slices: usize, tag: u64, sk: &signature::SecretKey) -> BuiltBlock {
    let mut slices = Vec::new();
    for i in 0..n_slices {
        let txs = vec![Transaction(tag.to_le_bytes().to_vec()), Transaction(vec![i as u8; 3])];
        slices.push(Slice {
            slot,
            slice_index: si(i),
            is_last: i == n_slices - 1,
            parent: if i == 0 { Some(parent.clone()) } else { None },
            data: txs_payload(&txs),
        });
    }
    build_block(slices, sk).expect("well-formed block")
}

pub fn shred_bytes(s: &Shred) -> Vec<u8> {
    wincode::serialize(s).expect("serialize shred")
}

pub fn decode_shred(b: &[u8]) -> Option<Shred> {
    alpenglow::network::deserialize::<Shred>(b).ok()
}

// ---- encoded shred layout (checked by `self_check`) ----
// u32 variant tag (0 = Data, 1 = Coding)
// u64 slot | u64 slice_index | u8 is_last | u64 shred_index | u64 data_len | data
// 64-byte ed25519 signature | u64 proof_len | 32-byte proof elements
pub const SHRED_OFF_TAG: usize = 0;
pub const SHRED_OFF_SLOT: usize = 4;
pub const SHRED_OFF_SLICE: usize = 12;
pub const SHRED_OFF_LAST: usize = 20;
pub const SHRED_OFF_INDEX: usize = 21;
pub const SHRED_OFF_DATALEN: usize = 29;
pub const SHRED_OFF_DATA: usize = 37;

pub struct ShredLayout {
    pub data_len: usize,
    pub sig_off: usize,
    pub proof_len_off: usize,
    pub proof_off: usize,
    pub proof_elems: usize,
}

pub fn shred_layout(b: &[u8]) -> Option<ShredLayout> {
    if b.len() < SHRED_OFF_DATA {
        return None;
    }
    let data_len = u64::from_le_bytes(b[SHRED_OFF_DATALEN..SHRED_OFF_DATA].try_into().ok()?) as usize;
    let sig_off = SHRED_OFF_DATA.checked_add(data_len)?;
    let proof_len_off = sig_off + 64;
    let proof_off = proof_len_off + 8;
    if b.len() < proof_off {
        return None;
    }
    let proof_elems = u64::from_le_bytes(b[proof_len_off..proof_off].try_into().ok()?) as usize;
    if b.len() != proof_off + 32 * proof_elems {
        return None;
    }
    Some(ShredLayout { data_len, sig_off, proof_len_off, proof_off, proof_elems })
}

pub fn put_u64(b: &mut [u8], off: usize, v: u64) {
    b[off..off + 8].copy_from_slice(&v.to_le_bytes());
}

pub fn get_u64(b: &[u8], off: usize) -> u64 {
    u64::from_le_bytes(b[off..off + 8].try_into().unwrap())
}

// ---- encoded repair request: u64 sender | u32 variant | u64 slot | 32-byte hash | [u64 slice] | [u64 shred]
pub fn repair_request_bytes(sender: u64, variant: u32, block: &BlockId, slice: Option<u64>, shred: Option<u64>) -> Vec<u8> {
    let mut b = Vec::new();
    b.extend_from_slice(&sender.to_le_bytes());
    b.extend_from_slice(&variant.to_le_bytes());
    b.extend_from_slice(&block.0.inner().to_le_bytes());
    b.extend_from_slice(block.1.as_hash_bytes());
    if let Some(s) = slice {
        b.extend_from_slice(&s.to_le_bytes());
    }
    if let Some(s) = shred {
        b.extend_from_slice(&s.to_le_bytes());
    }
    b
}

pub trait HashBytes {
    fn as_hash_bytes(&self) -> &[u8];
}
impl HashBytes for BlockHash {
    fn as_hash_bytes(&self) -> &[u8] {
        use alpenglow::crypto::merkle::MerkleRoot;
        self.as_hash().as_ref()
    }
}

/// Start-up self-check of the hand-written layouts against the crate's own encoders.
pub fn self_check() -> Result<(), String> {
    let kp = crate::keys::keypair(0);
    let blk = simple_block(Slot::new(7), (Slot::new(3), synth_hash(3, 1)), 2, 42, &kp.sk);
    for (sidx, slice) in blk.shreds.iter().enumerate() {
        for (i, vs) in slice.iter().enumerate() {
            let b = shred_bytes(vs.as_shred());
            let lay = shred_layout(&b).ok_or("shred layout does not parse")?;
            let tag = u32::from_le_bytes(b[0..4].try_into().unwrap());
            if (tag == 0) != vs.is_data() {
                return Err("shred variant tag mismatch".into());
            }
            if get_u64(&b, SHRED_OFF_SLOT) != 7
                || get_u64(&b, SHRED_OFF_SLICE) != sidx as u64
                || b[SHRED_OFF_LAST] != u8::from(sidx == 1)
                || get_u64(&b, SHRED_OFF_INDEX) != i as u64
                || lay.data_len == 0
                || lay.proof_elems != 6
            {
                return Err(format!("shred field offsets mismatch at slice {sidx} shred {i}"));
            }
            if b.len() > 1500 {
                return Err("honest shred exceeds MTU".into());
            }
            let back = decode_shred(&b).ok_or("shred does not decode")?;
            if shred_bytes(&back) != b {
                return Err("shred re-encoding differs".into());
            }
        }
    }
    if TOTAL_SHREDS != 64 {
        return Err("TOTAL_SHREDS changed".into());
    }
    // repair request layout
    let id: BlockId = (Slot::new(9), synth_hash(9, 2));
    for (variant, slice, shred) in [(0u32, None, None), (1, Some(3u64), None), (2, Some(3), Some(5u64))] {
        let b = repair_request_bytes(1, variant, &id, slice, shred);
        let req = alpenglow::network::deserialize::<RepairRequest>(&b).map_err(|e| format!("repair request layout: {e:?}"))?;
        if wincode::serialize(&req).map_err(|e| format!("{e:?}"))? != b {
            return Err("repair request re-encoding differs".into());
        }
    }
    let _ = (ShredIndex::new(0), ValidatorIndex::new(0));
    Ok(())
}
