//! agsim — deterministic simulation with fault injection for qkniep/alpenglow.
//!
//! usage:
//!   agsim check <PROP> <quick|thorough> [--runs N] [--budget-s S] [--jobs J]
//!   agsim replay <file> [--trace]
//!   agsim one <PROP> <variant> <seed> [--trace]
//!   agsim determinism <PROP> <runs>        (prints seed,variant,hash lines)
//!   agsim selfcheck

#![allow(dead_code)]
mod adv;
mod cluster;
mod dissem;
mod hostile;
mod kernel;
mod kworld;
mod keys;
mod model;
mod net;
mod netrecv;
mod oracle;
mod poolworld;
mod props;
mod repairworld;
mod sampworld;
mod replay;
mod soloworld;
mod vworld;
mod wire;
mod wireworld;

use std::collections::{BTreeMap, BTreeSet};
use std::sync::atomic::{AtomicBool, AtomicU64, Ordering};
use std::sync::{Arc, Mutex, mpsc};
use std::time::Instant;

use serde_json::{Value, json};

pub const DEFAULT_SEED: u64 = 20260925;

#[derive(Clone, Debug)]
pub struct RunResult {
    pub property: String,
    pub variant: usize,
    pub variant_name: String,
    pub seed: u64,
    pub violations: Vec<kernel::Violation>,
    pub harness_errors: Vec<String>,
    pub faults: BTreeMap<String, u64>,
    pub probes: BTreeMap<String, u64>,
    pub hash: String,
    pub fp: u64,
    pub nontrivial: bool,
    pub virt_ms: u64,
    pub events: u64,
    pub capped: bool,
    pub sample: Value,
    pub decisions: BTreeMap<String, Vec<u32>>,
    pub defaults_used: u64,
    pub wall_ms: u64,
    pub trace: Option<Vec<String>>,
}

pub fn splitmix(seed: u64, i: u64) -> u64 {
    let mut z = seed.wrapping_add(0x9E3779B97F4A7C15u64.wrapping_mul(i.wrapping_add(1)));
    z = (z ^ (z >> 30)).wrapping_mul(0xBF58476D1CE4E5B9);
    z = (z ^ (z >> 27)).wrapping_mul(0x94D049BB133111EB);
    z ^ (z >> 31)
}

/// Executes one run: a pure function of (property, variant, tier, decisions).
pub fn execute(property: &str, variant: usize, tier: props::Tier, dec: kernel::Decisions, trace: bool) -> RunResult {
    let t0 = Instant::now();
    let seed = dec.seed();
    let variants = props::variants(property, tier);
    let v = &variants[variant % variants.len()];
    kernel::begin_run(dec, trace, v.max_events);
    let outcome = std::panic::catch_unwind(std::panic::AssertUnwindSafe(|| (v.run)(&props::VariantCtx { property: property.to_string(), tier })));
    let (mut ctx, mut panics) = kernel::end_run();
    let mut harness_errors = Vec::new();
    let (nontrivial, sample, virt_ms) = match outcome {
        Ok(o) => (o.nontrivial, o.sample, o.virt_ms),
        Err(_) => {
            // a panic that unwound out of the world itself (not inside a tokio task)
            (false, json!({"error": "world panicked"}), 0)
        }
    };
    // attribute panics
    for p in panics.drain(..) {
        if kernel::panic_in_repo(&p) {
            let (prop, class) = props::classify_panic(&p, property);
            if !ctx.violations.iter().any(|v| v.property == prop && v.class == class) {
                ctx.violations.push(kernel::Violation {
                    property: prop,
                    class,
                    detail: match &p.via_repo {
                        None => format!("panic at {} in task '{}': {}", p.location, p.task, p.message),
                        Some(f) => format!("panic at {} reached through {f} in task '{}': {}", p.location, p.task, p.message),
                    },
                    at_event: ctx.events,
                    virt_ms: p.virt_ms,
                });
            }
        } else if p.location.contains("/verif/sim/") || p.location.starts_with("src/") {
            harness_errors.push(format!("harness panic at {}: {}", p.location, p.message));
        } else {
            // dependency code (tokio, blst, ...): treat as harness error unless reached through repo code
            harness_errors.push(format!("panic outside repo at {}: {}", p.location, p.message));
        }
    }
    let hash = kernel::finish_hash(&mut ctx);
    let fp = kernel::finish_fp(&mut ctx);
    RunResult {
        property: property.to_string(),
        variant: variant % variants.len(),
        variant_name: v.name.to_string(),
        seed,
        violations: ctx.violations.clone(),
        harness_errors,
        faults: ctx.faults.iter().map(|(k, v)| (k.to_string(), *v)).collect(),
        probes: ctx.probes.iter().map(|(k, v)| (k.to_string(), *v)).collect(),
        hash,
        fp,
        nontrivial,
        virt_ms,
        events: ctx.events,
        capped: ctx.capped,
        sample,
        decisions: ctx.dec.export(),
        defaults_used: ctx.dec.defaults_used,
        wall_ms: t0.elapsed().as_millis() as u64,
        trace: ctx.trace.take(),
    }
}

fn arg_val(args: &[String], name: &str) -> Option<String> {
    args.iter().position(|a| a == name).and_then(|i| args.get(i + 1).cloned())
}

fn main() {
    let args: Vec<String> = std::env::args().skip(1).collect();
    let verbose = std::env::var("AGSIM_VERBOSE").is_ok();
    kernel::install_panic_hook(verbose);
    if let Err(e) = wire::self_check() {
        eprintln!("HARNESS ERROR: wire self-check failed: {e}");
        std::process::exit(2);
    }
    if let Ok(level) = std::env::var("AGSIM_LOG") {
        struct L;
        impl log::Log for L {
            fn enabled(&self, _: &log::Metadata) -> bool {
                true
            }
            fn log(&self, r: &log::Record) {
                if r.target().starts_with("alpenglow") {
                    eprintln!("[{} {}] {}", r.level(), r.target(), r.args());
                }
            }
            fn flush(&self) {}
        }
        static LOGGER: L = L;
        let _ = log::set_logger(&LOGGER);
        log::set_max_level(match level.as_str() {
            "trace" => log::LevelFilter::Trace,
            "debug" => log::LevelFilter::Debug,
            "info" => log::LevelFilter::Info,
            _ => log::LevelFilter::Warn,
        });
    }
    let code = match args.first().map(String::as_str) {
        Some("check") => cmd_check(&args[1..]),
        Some("replay") => replay::cmd_replay(&args[1..]),
        Some("one") => cmd_one(&args[1..]),
        Some("determinism") => cmd_determinism(&args[1..]),
        Some("probe-far-slot") => {
            // directed probe (not a registered check): an equivocating leader of the very last window
            let n = 5usize;
            let real = 0usize;
            let slot = u64::MAX - 1;
            let leader = ((slot / 4) % n as u64) as usize;
            println!("slot {slot} leader {leader}");
            kernel::install_panic_hook(true);
            kernel::begin_run(kernel::Decisions::generate(1), false, 2_000_000);
            let rt = tokio::runtime::Builder::new_current_thread().enable_time().start_paused(true).build().expect("rt");
            rt.block_on(async {
                kernel::set_t0();
                let stakes = vec![1u64; n];
                let vals = keys::validator_infos(&stakes);
                let netc = net::NetCore::new(n, net::NetCfg::benign(n));
                tokio::spawn(net::pump(netc.clone()));
                let _h = cluster::spawn_node(real, &vals, &stakes, &netc, cluster::DissemKind::Trivial);
                let mut keep = Vec::new();
                for i in 0..n {
                    if i != real {
                        keep.push(cluster::register_puppet(i, &netc));
                    }
                }
                let kp = keys::keypair(leader);
                let parent = (alpenglow::types::Slot::new(3), wire::synth_hash(3, 1));
                let a = wire::simple_block(alpenglow::types::Slot::new(slot), parent.clone(), 1, 1, &kp.sk);
                let b = wire::simple_block(alpenglow::types::Slot::new(slot), parent, 1, 2, &kp.sk);
                tokio::time::sleep(std::time::Duration::from_millis(200)).await;
                {
                    let mut c = netc.lock().unwrap();
                    for sh in a.shreds[0].iter().take(40) {
                        c.inject(net::port_of(leader, net::Iface::Dissem), net::port_of(real, net::Iface::Dissem), wire::shred_bytes(sh.as_shred()), Some(1));
                    }
                    for sh in b.shreds[0].iter().take(3) {
                        c.inject(net::port_of(leader, net::Iface::Dissem), net::port_of(real, net::Iface::Dissem), wire::shred_bytes(sh.as_shred()), Some(5));
                    }
                }
                tokio::time::sleep(std::time::Duration::from_millis(3000)).await;
                let _ = keep;
            });
            let (_, panics) = kernel::end_run();
            for p in &panics {
                println!("PANIC {} @ {} via {:?}", p.message, p.location, p.via_repo);
            }
            println!("panics: {}", panics.len());
            0
        }
        Some("probe-heavy-vote") => {
            // directed probe (not a registered check): a gap slot closed by one heavy notar vote that
            // crosses 60 % and 80 % at once
            use model::{VK, VoteId};
            let mut stakes = vec![7u64; 10];
            stakes.push(30);
            let mut h = poolworld::PoolHarness::new(&stakes, 0);
            kernel::begin_run(kernel::Decisions::generate(1), false, 1_000_000);
            let all: Vec<usize> = (0..11).collect();
            h.add_block((1, 1), (0, 0));
            for v in &all {
                let _ = h.add_vote(VoteId { v: *v, kind: VK::Notar, slot: 1, tag: 1 });
            }
            h.add_block((2, 1), (1, 1));
            // (the block of slot 3 is not registered: slot 2 stays an undecided gap)
            for v in &all {
                let _ = h.add_vote(VoteId { v: *v, kind: VK::Notar, slot: 3, tag: 1 });
            }
            for v in 0..9 {
                let _ = h.add_vote(VoteId { v, kind: VK::Final, slot: 2, tag: 0 });
            }
            println!("before: finalized {} watermark {} retained {:?}", h.finalized_slot(), h.watermark(), h.pool.verif_retained_slots());
            for v in 0..8 {
                let r = h.add_vote(VoteId { v, kind: VK::Notar, slot: 2, tag: 1 });
                println!("light notar {v}: {r:?}");
            }
            let r = h.add_vote(VoteId { v: 10, kind: VK::Notar, slot: 2, tag: 1 });
            println!("heavy notar: {r:?}");
            let out = h.drain();
            println!("certs created: {:?}", out.certs.iter().map(poolworld::cert_key).collect::<Vec<_>>());
            println!("after: finalized {} watermark {} retained {:?}", h.finalized_slot(), h.watermark(), h.pool.verif_retained_slots());
            let _ = kernel::end_run();
            0
        }
        Some("selfcheck") => {
            println!("wire self-check ok");
            0
        }
        _ => {
            eprintln!("usage: agsim check <PROP> <quick|thorough> | replay <file> | one <PROP> <variant> <seed> | determinism <PROP> <runs>");
            2
        }
    };
    std::process::exit(code);
}

fn cmd_one(args: &[String]) -> i32 {
    let prop = &args[0];
    let variant: usize = args[1].parse().expect("variant");
    let seed: u64 = args[2].parse().expect("seed");
    let trace = args.iter().any(|a| a == "--trace");
    let tier = if args.iter().any(|a| a == "--thorough") { props::Tier::Thorough } else { props::Tier::Quick };
    let r = execute(prop, variant, tier, kernel::Decisions::generate(seed), trace);
    if let Some(t) = &r.trace {
        for l in t {
            println!("{l}");
        }
    }
    println!(
        "variant={} seed={} hash={} events={} virt_ms={} wall_ms={} nontrivial={} decisions={} capped={}",
        r.variant_name, r.seed, r.hash, r.events, r.virt_ms, r.wall_ms, r.nontrivial,
        r.decisions.values().map(Vec::len).sum::<usize>(), r.capped
    );
    println!("faults={:?}", r.faults);
    println!("probes={:?}", r.probes);
    println!("sample={}", r.sample);
    for v in &r.violations {
        println!("violation property={} class={} at_ms={} :: {}", v.property, v.class, v.virt_ms, v.detail);
    }
    for e in &r.harness_errors {
        println!("HARNESS ERROR: {e}");
    }
    0
}

fn cmd_determinism(args: &[String]) -> i32 {
    let prop = &args[0];
    let runs: u64 = args[1].parse().expect("runs");
    let seed: u64 = std::env::var("VERIF_SEED").ok().and_then(|s| s.parse().ok()).unwrap_or(DEFAULT_SEED);
    let jobs: usize = arg_val(args, "--jobs").and_then(|s| s.parse().ok()).unwrap_or(16);
    let tier = props::Tier::Quick;
    let nvar = props::variants(prop, tier).len();
    let next = Arc::new(AtomicU64::new(0));
    let out = Arc::new(Mutex::new(BTreeMap::new()));
    let mut hs = Vec::new();
    for _ in 0..jobs {
        let next = next.clone();
        let out = out.clone();
        let prop = prop.clone();
        hs.push(std::thread::Builder::new().stack_size(16 << 20).spawn(move || loop {
            let i = next.fetch_add(1, Ordering::SeqCst);
            if i >= runs {
                break;
            }
            let s = splitmix(seed, i);
            let variant = (i as usize) % nvar;
            let r = execute(&prop, variant, tier, kernel::Decisions::generate(s), false);
            out.lock().unwrap().insert(i, format!("{i} {variant} {s} {} {}", r.hash, r.events));
        }).expect("spawn"));
    }
    for h in hs {
        let _ = h.join();
    }
    for (_, l) in out.lock().unwrap().iter() {
        println!("{l}");
    }
    0
}

fn cmd_check(args: &[String]) -> i32 {
    let t_start = Instant::now();
    let prop = args[0].clone();
    let tier = match args.get(1).map(String::as_str) {
        Some("thorough") => props::Tier::Thorough,
        _ => match std::env::var("VERIF_TIER").ok().as_deref() {
            Some("thorough") => props::Tier::Thorough,
            _ => props::Tier::Quick,
        },
    };
    let seed: u64 = std::env::var("VERIF_SEED").ok().and_then(|s| s.parse().ok()).unwrap_or(DEFAULT_SEED);
    let jobs: usize = arg_val(args, "--jobs").and_then(|s| s.parse().ok()).unwrap_or_else(|| std::thread::available_parallelism().map(|n| n.get()).unwrap_or(8).min(16));
    let plan = props::plan(&prop, tier);
    let Some(plan) = plan else {
        eprintln!("HARNESS ERROR: unknown property {prop}");
        return 2;
    };
    let runs: u64 = arg_val(args, "--runs").and_then(|s| s.parse().ok()).unwrap_or(plan.runs);
    let budget_s: u64 = arg_val(args, "--budget-s").and_then(|s| s.parse().ok()).unwrap_or(plan.budget_s);
    println!("agsim check property={prop} tier={tier:?} VERIF_SEED={seed} runs<={runs} budget={budget_s}s jobs={jobs}");

    let variants = props::variants(&prop, tier);
    // weighted round-robin schedule of variants
    let mut schedule = Vec::new();
    for (i, v) in variants.iter().enumerate() {
        for _ in 0..v.weight {
            schedule.push(i);
        }
    }
    let schedule = Arc::new(schedule);
    let next = Arc::new(AtomicU64::new(0));
    let stop = Arc::new(AtomicBool::new(false));
    let (tx, rx) = mpsc::channel::<RunResult>();
    let mut hs = Vec::new();
    for _ in 0..jobs {
        let next = next.clone();
        let stop = stop.clone();
        let schedule = schedule.clone();
        let tx = tx.clone();
        let prop = prop.clone();
        hs.push(
            std::thread::Builder::new()
                .stack_size(16 << 20)
                .spawn(move || {
                    loop {
                        if stop.load(Ordering::SeqCst) {
                            break;
                        }
                        let i = next.fetch_add(1, Ordering::SeqCst);
                        if i >= runs {
                            break;
                        }
                        let s = splitmix(seed, i);
                        let variant = schedule[(i as usize) % schedule.len()];
                        let mut r = execute(&prop, variant, tier, kernel::Decisions::generate(s), false);
                        if r.violations.iter().all(|v| v.property != prop) && r.harness_errors.is_empty() {
                            // keep memory bounded: decisions are only needed for failing runs
                            r.decisions.clear();
                        }
                        if tx.send(r).is_err() {
                            break;
                        }
                    }
                })
                .expect("spawn worker"),
        );
    }
    drop(tx);

    // aggregate
    let mut n_runs = 0u64;
    let mut n_nontrivial = 0u64;
    let mut fps: BTreeSet<u64> = BTreeSet::new();
    let mut faults: BTreeMap<String, u64> = BTreeMap::new();
    let mut probes: BTreeMap<String, u64> = BTreeMap::new();
    let mut per_variant: BTreeMap<String, (u64, u64)> = BTreeMap::new();
    let mut virt_ms = 0u64;
    let mut events = 0u64;
    let mut capped = 0u64;
    let mut samples: Vec<Value> = Vec::new();
    let mut failing: BTreeMap<String, RunResult> = BTreeMap::new();
    let mut other_props: BTreeMap<String, u64> = BTreeMap::new();
    let mut harness_errors: Vec<String> = Vec::new();
    let mut sum_wall_ms = 0u64;
    let runlog = std::env::var("AGSIM_RUNLOG").is_ok();
    for r in rx {
        n_runs += 1;
        if runlog {
            eprintln!("run seed={} variant={} events={} virt_ms={} wall_ms={} capped={} nontrivial={} viol={:?}", r.seed, r.variant_name, r.events, r.virt_ms, r.wall_ms, r.capped, r.nontrivial, r.violations.iter().map(|v| format!("{}:{}", v.property, v.class)).collect::<Vec<_>>());
        }
        sum_wall_ms += r.wall_ms;
        virt_ms += r.virt_ms;
        events += r.events;
        if r.capped {
            capped += 1;
        }
        let e = per_variant.entry(r.variant_name.clone()).or_insert((0, 0));
        e.0 += 1;
        if r.nontrivial {
            n_nontrivial += 1;
            e.1 += 1;
            fps.insert(r.fp);
        }
        for (k, v) in &r.faults {
            *faults.entry(k.clone()).or_insert(0) += v;
        }
        for (k, v) in &r.probes {
            *probes.entry(k.clone()).or_insert(0) += v;
        }
        if samples.len() < 3 && r.nontrivial {
            samples.push(json!({"seed": r.seed, "variant": r.variant_name, "events": r.events, "virt_ms": r.virt_ms, "hash": r.hash, "case": r.sample}));
        }
        for e in &r.harness_errors {
            if harness_errors.len() < 10 {
                harness_errors.push(format!("seed {} variant {}: {e}", r.seed, r.variant_name));
            }
        }
        for v in &r.violations {
            if v.property == prop {
                if !failing.contains_key(&v.class) {
                    failing.insert(v.class.clone(), r.clone());
                }
            } else {
                *other_props.entry(format!("{}:{}", v.property, v.class)).or_insert(0) += 1;
            }
        }
        if t_start.elapsed().as_secs() >= budget_s {
            stop.store(true, Ordering::SeqCst);
        }
    }
    for h in hs {
        let _ = h.join();
    }
    if samples.is_empty() {
        samples.push(json!({"note": "no non-trivial run in this batch"}));
    }

    // known findings
    let known = replay::load_known_findings();
    let mut violations_new: Vec<(String, RunResult)> = Vec::new();
    let mut known_hit: Vec<String> = Vec::new();
    for (class, r) in failing {
        if let Some(k) = known.iter().find(|k| k.property == prop && class.starts_with(&k.class_prefix)) {
            known_hit.push(format!("KNOWN-FINDING: property={prop} {} [class {class}]", k.what));
        } else {
            violations_new.push((class, r));
        }
    }
    known_hit.sort();
    known_hit.dedup();
    for k in &known_hit {
        println!("{k}");
    }

    // minimise + verify replay for new violations
    let mut exit = 0;
    let mut violation_lines = Vec::new();
    for (class, r) in violations_new.iter().take(3) {
        match replay::minimise_and_write(&prop, tier, class, r, t_start, budget_s) {
            Ok(path) => {
                violation_lines.push(format!("VIOLATION property={prop} replay={path}"));
                let v = r.violations.iter().find(|v| &v.class == class).expect("class present");
                println!("  class={class} seed={} variant={} :: {}", r.seed, r.variant_name, v.detail);
                exit = 1;
            }
            Err(e) => {
                harness_errors.push(format!("non-replayable failure (class {class}, seed {}): {e}", r.seed));
            }
        }
    }

    for (class, r) in violations_new.iter().skip(3) {
        let v = r.violations.iter().find(|v| &v.class == class).expect("class present");
        println!("  further class={class} seed={} variant={} (not minimised) :: {}", r.seed, r.variant_name, v.detail);
    }

    let wall_s = t_start.elapsed().as_secs_f64();
    let runs_per_hour = if wall_s > 0.0 { (n_runs as f64) * 3600.0 / wall_s } else { 0.0 };
    let ev = json!({
        "property_id": prop,
        "tier": if tier == props::Tier::Quick { "quick" } else { "thorough" },
        "seed": seed,
        "level": plan.level,
        "coverage": {
            "evaluations": n_runs,
            "distinct_nontrivial": fps.len(),
            "rule": plan.rule,
            "samples": samples,
            "runs_per_variant_total_and_nontrivial": per_variant.iter().map(|(k, v)| (k.clone(), json!([v.0, v.1]))).collect::<BTreeMap<_, _>>(),
            "fault_kinds_fired": faults,
            "reach_probes": probes,
            "run_statistics": {
                "nontrivial_runs": n_nontrivial,
                "runs_capped_by_event_or_wall_limit": capped,
                "simulated_runs_per_hour": runs_per_hour.round(),
                "seeds_per_hour": runs_per_hour.round(),
                "simulated_seconds_covered": (virt_ms as f64) / 1000.0,
                "events_total": events,
                "worker_threads": jobs,
                "cpu_seconds_in_runs": (sum_wall_ms as f64) / 1000.0,
                "planned_runs": runs,
                "stopped_by_time_budget": n_runs < runs,
            },
            "violations_of_other_properties_seen_not_reported_here": other_props,
            "known_findings_hit": known_hit,
            "components_real": plan.real,
            "components_stubbed": plan.stubbed,
        },
        "assumptions": plan.assumptions,
        "wall_s": wall_s,
        "violations": violation_lines.len(),
    });
    let _ = std::fs::create_dir_all(format!("{}/evidence", replay::verif_root()));
    let path = format!("{}/evidence/{prop}.json", replay::verif_root());
    if let Err(e) = std::fs::write(&path, serde_json::to_string_pretty(&ev).expect("json")) {
        eprintln!("HARNESS ERROR: cannot write evidence {path}: {e}");
        return 2;
    }
    println!(
        "runs={n_runs} nontrivial={n_nontrivial} distinct_fp={} virt_s={:.0} wall_s={wall_s:.1} capped={capped} evidence={path}",
        fps.len(),
        (virt_ms as f64) / 1000.0
    );
    for l in &violation_lines {
        println!("{l}");
    }
    if !harness_errors.is_empty() {
        for e in &harness_errors {
            eprintln!("HARNESS ERROR: {e}");
        }
        if exit == 0 {
            return 2;
        }
    }
    exit
}
