//! C10, transport level: the receive loops of the crate's own network implementations.
//!
//! The cluster worlds replace the transport by `SimNet`, so `UdpNetwork::receive` and
//! `SimulatedNetwork::receive` (both named by C10: "hostile input is dropped ... and the node keeps
//! serving") never run there. This world feeds each of them, for each of the five interface
//! message types, a drawn script of datagrams: valid messages interleaved with hostile ones (empty,
//! truncated, trailing bytes, garbage, messages of another interface, absurd length prefixes,
//! oversize datagrams), and demands that `receive()` never fails or panics and hands out exactly the
//! decodable datagrams.
//!
//! `SimulatedNetwork` runs on its in-process core (zero latency, no loss). `UdpNetwork` runs on real
//! loopback sockets: that part is *not* schedule-controlled, so its oracle demands only facts that do
//! not depend on kernel timing (no error, no panic, nothing undecodable delivered, and every decodable
//! datagram delivered in at least one of three repetitions of the script), and nothing of it enters
//! the event log. If the sandbox does not allow binding a loopback socket the variant counts the run
//! as skipped.

use std::collections::BTreeMap;
use std::sync::Arc;
use std::time::Duration;

use alpenglow::consensus::ConsensusMessage;
use alpenglow::network::{Network, SimulatedNetwork, UdpNetwork, simulated::SimulatedNetworkCore};
use alpenglow::repair::{RepairRequest, RepairRequestType, RepairResponse};
use alpenglow::shredder::Shred;
use alpenglow::types::Slot;
use alpenglow::{BlockId, Transaction, ValidatorIndex};
use serde_json::json;

use crate::kernel;
use crate::keys;
use crate::model::VK;
use crate::props::WorldOutcome;
use crate::wire::{self, si};

const G: &str = "gen";
const MTU: usize = 1500;

fn valid_bytes(iface: u64, k: u64) -> Vec<u8> {
    let bid: BlockId = (Slot::new(3 + k % 5), wire::synth_hash(3 + k % 5, k));
    match iface {
        0 => {
            let kind = [VK::Notar, VK::NotarFallback, VK::Skip, VK::SkipFallback, VK::Final][(k % 5) as usize];
            let v = crate::wireworld::sign_vote((k % 4) as usize, kind, 2 + k % 7, &wire::synth_hash(2 + k % 7, 1));
            wincode::serialize(&ConsensusMessage::Vote(v)).expect("ser")
        }
        1 => {
            let kp = keys::keypair(1);
            let blk = wire::simple_block(Slot::new(2 + k % 3), (Slot::new(1), wire::synth_hash(1, 1)), 1, k, &kp.sk);
            wire::shred_bytes(blk.shreds[0][(k % 64) as usize].as_shred())
        }
        2 => wire::repair_request_bytes(k % 4, (k % 3) as u32, &bid, if k % 3 >= 1 { Some(k % 8) } else { None }, if k % 3 == 2 { Some(k % 64) } else { None }),
        3 => {
            let rt = match k % 3 {
                0 => RepairRequestType::LastSliceRoot(bid),
                1 => RepairRequestType::SliceRoot(bid, si((k % 8) as usize)),
                _ => RepairRequestType::SliceRoot(bid, si(0)),
            };
            wincode::serialize(&RepairResponse::Nack(rt)).expect("ser")
        }
        _ => wincode::serialize(&Transaction(vec![(k % 251) as u8; (k % 300) as usize])).expect("ser"),
    }
}

/// One datagram of the script and the class it was drawn from.
fn draw_datagram(iface: u64, udp: bool) -> (Vec<u8>, &'static str) {
    let k = kernel::choose(G, 1000);
    let v = valid_bytes(iface, k);
    match kernel::choose(G, 12) {
        0 | 1 | 2 | 3 => (v, "valid"),
        4 => (Vec::new(), "empty"),
        5 => {
            let cut = 1 + kernel::choose(G, v.len() as u64 - 1) as usize;
            (v[..v.len() - cut].to_vec(), "truncated")
        }
        6 => {
            let mut b = v;
            b.extend(std::iter::repeat_n(0xAB, 1 + kernel::choose(G, 8) as usize));
            (b, "trailing-bytes")
        }
        7 => {
            let len = 1 + kernel::choose(G, 200) as usize;
            ((0..len).map(|_| kernel::choose(G, 256) as u8).collect(), "garbage")
        }
        8 => (valid_bytes((iface + 1 + kernel::choose(G, 4)) % 5, k), "other-interface-message"),
        9 => {
            let mut b = v;
            let at = kernel::choose(G, b.len().min(16) as u64) as usize;
            for x in b.iter_mut().skip(at).take(8) {
                *x = 0xFF;
            }
            (b, "absurd-prefix")
        }
        10 => (vec![0xFF; MTU], "all-ones-mtu"),
        _ => {
            if udp {
                // larger than the receive buffer: the kernel truncates it
                let mut b = v;
                b.resize(MTU + 1 + kernel::choose(G, 3000) as usize, 0x5A);
                (b, "oversize")
            } else {
                (vec![0u8; 1 + kernel::choose(G, 64) as usize], "zeros")
            }
        }
    }
}

trait Wire: Sized + Send + Sync + 'static {
    fn decode(b: &[u8]) -> Option<Self>;
    fn encode(&self) -> Vec<u8>;
}
macro_rules! wire_impl {
    ($t:ty) => {
        impl Wire for $t {
            fn decode(b: &[u8]) -> Option<Self> {
                alpenglow::network::deserialize::<$t>(b).ok()
            }
            fn encode(&self) -> Vec<u8> {
                wincode::serialize(self).expect("ser")
            }
        }
    };
}
wire_impl!(ConsensusMessage);
wire_impl!(Shred);
wire_impl!(RepairRequest);
wire_impl!(RepairResponse);
wire_impl!(Transaction);

pub fn c10_transport(prop: &str) -> WorldOutcome {
    let udp = kernel::choose(G, 2) == 1;
    let iface = kernel::choose(G, 5);
    let n = 4 + kernel::choose(G, 44) as usize;
    let mut script: Vec<(Vec<u8>, &'static str)> = (0..n).map(|_| draw_datagram(iface, udp)).collect();
    // the script ends with a valid message: whatever came before, the loop must still serve it
    script.push((valid_bytes(iface, 999), "valid"));
    for (_, c) in &script {
        if *c != "valid" {
            kernel::fault(match *c {
                "empty" => "hostile_datagram_empty",
                "truncated" => "hostile_datagram_truncated",
                "trailing-bytes" => "hostile_datagram_trailing_bytes",
                "garbage" => "hostile_datagram_garbage",
                "other-interface-message" => "hostile_datagram_other_interface",
                "absurd-prefix" => "hostile_datagram_absurd_prefix",
                "all-ones-mtu" => "hostile_datagram_all_ones",
                "oversize" => "hostile_datagram_oversize",
                _ => "hostile_datagram_zeros",
            });
        }
    }
    kernel::event_nt(&format!("c10-transport udp={udp} iface={iface} datagrams={}", script.len()));
    let outcome = match iface {
        0 => run::<ConsensusMessage>(prop, udp, &script),
        1 => run::<Shred>(prop, udp, &script),
        2 => run::<RepairRequest>(prop, udp, &script),
        3 => run::<RepairResponse>(prop, udp, &script),
        _ => run::<Transaction>(prop, udp, &script),
    };
    let classes: BTreeMap<&str, usize> = script.iter().fold(BTreeMap::new(), |mut m, (_, c)| {
        *m.entry(*c).or_insert(0) += 1;
        m
    });
    kernel::fingerprint(&format!("udp={udp} iface={iface} {classes:?} {outcome}"));
    WorldOutcome { nontrivial: outcome != "skipped", sample: json!({"transport": if udp { "UdpNetwork (loopback)" } else { "SimulatedNetwork" }, "interface": iface, "datagrams": script.len(), "classes": classes, "outcome": outcome}), virt_ms: 0 }
}

fn run<R: Wire>(prop: &str, udp: bool, script: &[(Vec<u8>, &'static str)]) -> &'static str
where
    R: for<'de> wincode::SchemaRead<'de, alpenglow::network::NetworkMessageConfig, Dst = R> + wincode::SchemaWrite<wincode::config::DefaultConfig, Src = R>,
{
    // what must come out: the datagrams that decode (over UDP: after truncation to the receive buffer)
    let expected: Vec<Vec<u8>> = script
        .iter()
        .filter_map(|(b, _)| {
            let seen = if udp { &b[..b.len().min(MTU)] } else { &b[..] };
            R::decode(seen).map(|m| m.encode())
        })
        .collect();
    let rt = tokio::runtime::Builder::new_current_thread().enable_all().build().expect("rt");
    let transport = if udp { "UdpNetwork" } else { "SimulatedNetwork" };
    let rounds = if udp { 3 } else { 1 };
    let mut best_missing = usize::MAX;
    let mut verdict = "ok";
    for round in 0..rounds {
        let script2: Vec<Vec<u8>> = script.iter().map(|(b, _)| b.clone()).collect();
        let want = expected.len();
        let res = std::panic::catch_unwind(std::panic::AssertUnwindSafe(|| {
            rt.block_on(async move {
                let mut got: Vec<Vec<u8>> = Vec::new();
                let mut err: Option<String> = None;
                if udp {
                    let net: UdpNetwork<R, R> = match std::panic::catch_unwind(UdpNetwork::<R, R>::new_with_any_port) {
                        Ok(n) => n,
                        Err(_) => return (got, Some("bind-failed".to_string())),
                    };
                    let Ok(sock) = std::net::UdpSocket::bind("127.0.0.1:0") else { return (got, Some("bind-failed".to_string())) };
                    let to = std::net::SocketAddr::from(([127, 0, 0, 1], net.port()));
                    for b in &script2 {
                        if sock.send_to(b, to).is_err() {
                            return (got, Some("send-failed".to_string()));
                        }
                    }
                    while got.len() < want {
                        match tokio::time::timeout(Duration::from_millis(2500), net.receive()).await {
                            Ok(Ok(m)) => got.push(m.encode()),
                            Ok(Err(e)) => {
                                err = Some(format!("{e}"));
                                break;
                            }
                            Err(_) => break,
                        }
                    }
                    // anything further must not appear
                    if err.is_none()
                        && let Ok(Ok(m)) = tokio::time::timeout(Duration::from_millis(20), net.receive()).await
                    {
                        got.push(m.encode());
                    }
                } else {
                    let core = Arc::new(SimulatedNetworkCore::new(0, 0.0, 0.0));
                    let rx: SimulatedNetwork<R, R> = core.join_unlimited(ValidatorIndex::new(1)).await;
                    let _tx: SimulatedNetwork<R, R> = core.join_unlimited(ValidatorIndex::new(0)).await;
                    for b in &script2 {
                        core.send(b.clone(), ValidatorIndex::new(0), ValidatorIndex::new(1)).await;
                    }
                    while got.len() < want {
                        match tokio::time::timeout(Duration::from_millis(2000), rx.receive()).await {
                            Ok(Ok(m)) => got.push(m.encode()),
                            Ok(Err(e)) => {
                                err = Some(format!("{e}"));
                                break;
                            }
                            Err(_) => break,
                        }
                    }
                    if err.is_none()
                        && let Ok(Ok(m)) = tokio::time::timeout(Duration::from_millis(20), rx.receive()).await
                    {
                        got.push(m.encode());
                    }
                }
                (got, err)
            })
        }));
        let (got, err) = match res {
            Ok(x) => x,
            Err(_) => {
                let ps = kernel::take_panics();
                let p = ps.last();
                if p.is_some_and(kernel::panic_in_repo) {
                    let p = p.expect("record");
                    kernel::violation(prop, format!("transport-panic:{transport}"), format!("{transport}::receive panicked on a hostile datagram script: {} @ {}", p.message, p.location));
                    return "panic";
                }
                panic!("netrecv: panic outside the repository: {:?}", p.map(|p| (&p.message, &p.location)));
            }
        };
        match err.as_deref() {
            Some("bind-failed") | Some("send-failed") => {
                kernel::probe("loopback_sockets_unavailable_run_skipped");
                return "skipped";
            }
            Some(e) => {
                kernel::violation(prop, format!("transport-receive-error:{transport}"), format!("{transport}::receive returned an error ({e}) after hostile datagrams instead of dropping them and continuing"));
                return "error";
            }
            None => {}
        }
        // nothing but the decodable datagrams may come out
        let mut pool = expected.clone();
        for g in &got {
            if let Some(i) = pool.iter().position(|e| e == g) {
                pool.remove(i);
            } else {
                kernel::violation(prop, format!("transport-delivered-unexpected:{transport}"), format!("{transport}::receive handed out a message that is not one of the decodable datagrams sent ({} bytes re-encoded)", g.len()));
                return "unexpected";
            }
        }
        best_missing = best_missing.min(pool.len());
        if pool.is_empty() {
            if round > 0 {
                kernel::probe("udp_script_repeated_after_kernel_drop");
            }
            verdict = "ok";
            break;
        }
        verdict = "missing";
    }
    if verdict == "missing" {
        kernel::violation(
            prop,
            format!("transport-stopped-serving:{transport}"),
            format!("{transport}::receive did not hand out {best_missing} of {} decodable datagrams that were interleaved with hostile ones (in each of {rounds} repetitions)", expected.len()),
        );
    }
    verdict
}
