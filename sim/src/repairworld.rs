//! W4 `repair`: one real requester (`Repair::repair_loop`) repairing one block from 2-6 peers over
//! `SimNet`. Peers are real `RepairRequestHandler`s over real blockstores (with or without the block),
//! silent nodes, or harness-operated liars. Oracles: C14 (only matching data stored, task survives,
//! completes while an honest peer answers, responder answers verify) and C15 (Merkle proofs acted on
//! only for true (leaf, index, root) triples; plus the pure verification function under mutation).

use std::collections::BTreeSet;
use std::sync::Arc;
use std::time::Duration;

use alpenglow::consensus::{Blockstore, BlockstoreEvent, BlockstoreImpl, PoolImpl, SharedBlockstore, SharedPool};
use alpenglow::crypto::merkle::{DoubleMerkleProof, DoubleMerkleTree, PlainMerkleTree, SliceRoot};
use alpenglow::crypto::{Hash, MerkleTree};
use alpenglow::repair::{Repair, RepairRequest, RepairRequestHandler, RepairRequestType, RepairResponse};
use alpenglow::shredder::{RegularShredder, Shred, ShredIndex, Shredder, TOTAL_SHREDS, ValidatedShred};
use alpenglow::types::{Slice, Slot};
use alpenglow::{BlockId, Transaction};
use alpenglow::network::Network;
use serde_json::json;
use tokio::sync::{RwLock, mpsc};

use crate::kernel;
use crate::keys;
use crate::net::{Iface, NetCfg, NetCore, SharedNet, SimNet, addr_of, port_of, pump};
use crate::props::WorldOutcome;
use crate::wire::{self, si};

const G: &str = "gen";
const L: &str = "liar";

#[derive(Clone, Copy, Debug, PartialEq, Eq)]
enum PeerRole {
    Requester,
    HonestWithBlock,
    HonestWithoutBlock,
    Liar,
    Silent,
}

fn hash_from(bytes: [u8; 32]) -> Hash {
    wincode::deserialize::<Hash>(&bytes).expect("hash from bytes")
}

fn proof_hashes(p: &DoubleMerkleProof) -> Vec<Hash> {
    p.as_ref().to_vec()
}

/// Parsed repair request (fields are private in the crate; parsed from its own wire form).
#[derive(Clone, Debug)]
struct Req {
    sender: u64,
    variant: u32,
    block: BlockId,
    slice: Option<u64>,
    shred: Option<u64>,
}

fn parse_req(r: &RepairRequest) -> Option<Req> {
    let b = wincode::serialize(r).ok()?;
    if b.len() < 52 {
        return None;
    }
    let sender = wire::get_u64(&b, 0);
    let variant = u32::from_le_bytes(b[8..12].try_into().ok()?);
    let slot = wire::get_u64(&b, 12);
    let h: [u8; 32] = b[20..52].try_into().ok()?;
    let block: BlockId = (Slot::new(slot), hash_from(h).into());
    let slice = if variant >= 1 && b.len() >= 60 { Some(wire::get_u64(&b, 52)) } else { None };
    let shred = if variant >= 2 && b.len() >= 68 { Some(wire::get_u64(&b, 60)) } else { None };
    Some(Req { sender, variant, block, slice, shred })
}

fn req_type(r: &Req) -> RepairRequestType {
    match r.variant {
        0 => RepairRequestType::LastSliceRoot(r.block.clone()),
        1 => RepairRequestType::SliceRoot(r.block.clone(), si(r.slice.unwrap_or(0) as usize)),
        _ => RepairRequestType::Shred(r.block.clone(), si(r.slice.unwrap_or(0) as usize), ShredIndex::new(r.shred.unwrap_or(0) as usize).unwrap_or(ShredIndex::new(0).unwrap())),
    }
}

struct Truth {
    id: BlockId,
    blk: wire::BuiltBlock,
    /// alternative signing of slice 0 with `is_last = true` (Byzantine leader only)
    alt_first: Option<Vec<ValidatedShred>>,
    /// another validly signed block of the same leader in the same slot
    other: wire::BuiltBlock,
    /// the liar answers every shred request at once with the data/coding tag flipped (and answers
    /// everything else correctly): a fast peer that spoils as many requests as it can
    focused_tag_flipper: bool,
    /// the liar gives the same kind of (wrong) answer every time, immediately
    single_minded: Option<u64>,
}

fn mutate_proof(p: &DoubleMerkleProof) -> DoubleMerkleProof {
    let mut v = proof_hashes(p);
    match kernel::choose(L, 4) {
        0 if !v.is_empty() => {
            let i = kernel::choose(L, v.len() as u64) as usize;
            let mut b: [u8; 32] = v[i].as_ref().try_into().unwrap();
            b[kernel::choose(L, 32) as usize] ^= 1 << kernel::choose(L, 8);
            v[i] = hash_from(b);
        }
        1 if !v.is_empty() => {
            v.pop();
        }
        2 => v.push(hash_from([7u8; 32])),
        _ => {
            let extra = kernel::choose(L, 34) as usize;
            v.resize(extra, hash_from([0u8; 32]));
        }
    }
    v.into()
}

/// The liar's answer(s) to one request; `0` on every choice means "answer correctly".
fn liar_answer(req: &Req, t: &Truth) -> Vec<RepairResponse> {
    let rt = req_type(req);
    let n_slices = t.blk.shreds.len();
    let root_of = |k: usize| t.blk.shreds[k][0].slice_root().clone();
    let mut out = Vec::new();
    let about_target = req.block == t.id;
    // a single-minded liar uses one and the same wrong answer for every request of a kind
    let pick = |n: u64| match t.single_minded {
        Some(f) => f % n,
        None => kernel::choose(L, n),
    };
    if t.focused_tag_flipper && about_target {
        match req.variant {
            0 => {
                let last = n_slices - 1;
                out.push(RepairResponse::LastSliceRoot(rt, si(last), root_of(last), t.blk.tree.create_proof(last)));
            }
            1 => {
                let k = (req.slice.unwrap_or(0) as usize).min(n_slices - 1);
                out.push(RepairResponse::SliceRoot(rt, root_of(k), t.blk.tree.create_proof(k)));
            }
            _ => {
                let k = (req.slice.unwrap_or(0) as usize).min(n_slices - 1);
                let i = (req.shred.unwrap_or(0) as usize).min(TOTAL_SHREDS - 1);
                let mut b = wire::shred_bytes(t.blk.shreds[k][i].as_shred());
                b[wire::SHRED_OFF_TAG] ^= 1;
                kernel::fault("liar_flipped_type_tag");
                if let Some(s) = wire::decode_shred(&b) {
                    out.push(RepairResponse::Shred(rt, s));
                }
            }
        }
        return out;
    }
    match req.variant {
        0 => {
            let last = n_slices - 1;
            let correct = RepairResponse::LastSliceRoot(rt.clone(), si(last), root_of(last), t.blk.tree.create_proof(last));
            match pick(9) {
                0 => {
                    if about_target {
                        out.push(correct)
                    } else {
                        out.push(RepairResponse::Nack(rt))
                    }
                }
                1 => out.push(RepairResponse::Nack(rt)),
                2 => {
                    // index aliased modulo the tree width: same root, same proof, larger claimed slice count
                    let h = t.blk.tree.height().max(1);
                    let alias = last + (1 + kernel::choose(L, 3) as usize) * (1usize << h);
                    if alias < 1024 {
                        kernel::fault("liar_aliased_index");
                        out.push(RepairResponse::LastSliceRoot(rt, si(alias), root_of(last), t.blk.tree.create_proof(last)));
                    }
                }
                3 => {
                    // a non-last slice presented as the last one
                    let k = kernel::choose(L, n_slices as u64) as usize;
                    kernel::fault("liar_wrong_last");
                    out.push(RepairResponse::LastSliceRoot(rt, si(k), root_of(k), t.blk.tree.create_proof(k)));
                }
                4 => {
                    kernel::fault("liar_bad_proof");
                    out.push(RepairResponse::LastSliceRoot(rt, si(last), root_of(last), mutate_proof(&t.blk.tree.create_proof(last))));
                }
                5 => {
                    kernel::fault("liar_wrong_variant");
                    out.push(RepairResponse::SliceRoot(rt, root_of(0), t.blk.tree.create_proof(0)));
                }
                6 => {
                    // root/proof of another block of the same leader
                    kernel::fault("liar_other_block");
                    let ol = t.other.shreds.len() - 1;
                    out.push(RepairResponse::LastSliceRoot(rt, si(ol), t.other.shreds[ol][0].slice_root().clone(), t.other.tree.create_proof(ol)));
                }
                7 => {
                    kernel::fault("liar_duplicate_response");
                    out.push(correct.clone());
                    out.push(correct);
                }
                _ => {
                    // unsolicited response for a request nobody made
                    kernel::fault("liar_unsolicited");
                    let fake = RepairRequestType::SliceRoot(t.id.clone(), si(kernel::choose(L, 8) as usize));
                    out.push(RepairResponse::Nack(fake));
                    out.push(correct);
                }
            }
        }
        1 => {
            let k = (req.slice.unwrap_or(0) as usize).min(n_slices - 1);
            let correct = RepairResponse::SliceRoot(rt.clone(), root_of(k), t.blk.tree.create_proof(k));
            match pick(7) {
                0 => out.push(correct),
                1 => out.push(RepairResponse::Nack(rt)),
                2 => {
                    kernel::fault("liar_wrong_root");
                    let o = (k + 1) % n_slices;
                    out.push(RepairResponse::SliceRoot(rt, root_of(o), t.blk.tree.create_proof(k)));
                }
                3 => {
                    kernel::fault("liar_bad_proof");
                    out.push(RepairResponse::SliceRoot(rt, root_of(k), mutate_proof(&t.blk.tree.create_proof(k))));
                }
                4 => {
                    kernel::fault("liar_wrong_variant");
                    out.push(RepairResponse::LastSliceRoot(rt, si(k), root_of(k), t.blk.tree.create_proof(k)));
                }
                5 => {
                    kernel::fault("liar_other_block");
                    out.push(RepairResponse::SliceRoot(rt, t.other.shreds[0][0].slice_root().clone(), t.other.tree.create_proof(0)));
                }
                _ => {
                    kernel::fault("liar_duplicate_response");
                    out.push(correct.clone());
                    out.push(correct);
                }
            }
        }
        _ => {
            let k = (req.slice.unwrap_or(0) as usize).min(n_slices - 1);
            let i = (req.shred.unwrap_or(0) as usize).min(TOTAL_SHREDS - 1);
            let genuine = t.blk.shreds[k][i].as_shred().clone();
            match pick(8) {
                0 => out.push(RepairResponse::Shred(rt, genuine)),
                1 => out.push(RepairResponse::Nack(rt)),
                2 => {
                    kernel::fault("liar_wrong_shred_index");
                    out.push(RepairResponse::Shred(rt, t.blk.shreds[k][(i + 1) % TOTAL_SHREDS].as_shred().clone()));
                }
                3 => {
                    kernel::fault("liar_shred_of_other_slice");
                    out.push(RepairResponse::Shred(rt, t.blk.shreds[(k + 1) % n_slices][i].as_shred().clone()));
                }
                4 => {
                    kernel::fault("liar_shred_of_other_block");
                    out.push(RepairResponse::Shred(rt, t.other.shreds[0][i].as_shred().clone()));
                }
                5 if kernel::choose(L, 2) == 1 => {
                    // the data/coding tag is covered by neither signature nor proof: flip it
                    kernel::fault("liar_flipped_type_tag");
                    let mut b = wire::shred_bytes(&genuine);
                    b[wire::SHRED_OFF_TAG] ^= 1;
                    if let Some(s) = wire::decode_shred(&b) {
                        out.push(RepairResponse::Shred(rt, s));
                    }
                }
                5 => {
                    // byte-level tampering of the genuine shred
                    kernel::fault("liar_tampered_shred");
                    let b = crate::net::corrupt(&wire::shred_bytes(&genuine));
                    if let Some(s) = wire::decode_shred(&b) {
                        out.push(RepairResponse::Shred(rt, s));
                    }
                }
                6 => {
                    // same slice content signed with the other last-slice flag (Byzantine leader)
                    if let (Some(alt), 0) = (&t.alt_first, k) {
                        kernel::fault("liar_alt_signing_last_flag");
                        out.push(RepairResponse::Shred(rt, alt[i].as_shred().clone()));
                    } else {
                        out.push(RepairResponse::Shred(rt, genuine));
                    }
                }
                _ => {
                    kernel::fault("liar_wrong_variant");
                    out.push(RepairResponse::SliceRoot(rt, root_of(k), t.blk.tree.create_proof(k)));
                }
            }
        }
    }
    out
}

async fn liar_task(net: SimNet<RepairResponse, RepairRequest>, truth: Arc<Truth>, requester: usize) {
    kernel::set_task_name("liar");
    loop {
        let Ok(req) = net.receive().await else { return };
        let Some(r) = parse_req(&req) else { continue };
        if r.sender as usize != requester {
            continue;
        }
        kernel::event(&format!("liar got v{} slice={:?} shred={:?}", r.variant, r.slice, r.shred));
        for resp in liar_answer(&r, &truth) {
            // optional delay before answering
            let d = if truth.focused_tag_flipper || truth.single_minded.is_some() { 0 } else { kernel::choose(L, 4) * 100 };
            if d > 0 {
                tokio::time::sleep(Duration::from_millis(d)).await;
            }
            let _ = net.send(&resp, addr_of(requester, Iface::RepairReq)).await;
        }
    }
}

pub fn run(prop: &str, max_slices: usize) -> WorldOutcome {
    let n = 3 + kernel::choose(G, 5) as usize;
    let requester = kernel::choose(G, n as u64) as usize;
    let window = 1 + kernel::choose(G, 10);
    let slot = window * 4 + kernel::choose(G, 4);
    let leader = (window % n as u64) as usize;
    let byz_leader = kernel::choose(G, 3) == 0;
    let n_slices = 1 + kernel::choose(G, max_slices as u64) as usize;
    let stakes: Vec<u64> = (0..n).map(|_| 1 + kernel::choose(G, 5)).collect();
    let kp = keys::keypair(leader);
    // the block to repair
    let mut slices = Vec::new();
    let parent: BlockId = (Slot::new(slot - 1 - kernel::choose(G, 2).min(slot - 1)), wire::synth_hash(0, 3));
    for i in 0..n_slices {
        let ntx = kernel::choose(G, 30) as usize;
        let txs: Vec<Transaction> = (0..ntx).map(|j| Transaction(vec![(i + j) as u8; 1 + (j * 13) % 200])).collect();
        slices.push(Slice { slot: Slot::new(slot), slice_index: si(i), is_last: i == n_slices - 1, parent: if i == 0 { Some(parent.clone()) } else { None }, data: wire::txs_payload(&txs) });
    }
    let blk = wire::build_block(slices.clone(), &kp.sk).expect("block");
    let id: BlockId = (Slot::new(slot), blk.hash.clone());
    let alt_first = if byz_leader && n_slices >= 2 {
        let mut s0 = slices[0].clone();
        s0.is_last = true;
        Some(RegularShredder::default().shred(&s0, &kp.sk).expect("shred").to_vec())
    } else {
        None
    };
    let other = wire::simple_block(Slot::new(slot), parent.clone(), 1 + kernel::choose(G, 3) as usize, 77, &kp.sk);
    let focused_tag_flipper = kernel::choose(G, 6) == 1;
    if focused_tag_flipper {
        kernel::fault("liar_is_a_fast_tag_flipper");
    }
    let single_minded = if !focused_tag_flipper && kernel::choose(G, 4) == 1 { Some(2 + kernel::choose(G, 7)) } else { None };
    if single_minded.is_some() {
        kernel::fault("liar_is_single_minded_and_fast");
    }
    let truth = Arc::new(Truth { id: id.clone(), blk, alt_first, other, focused_tag_flipper, single_minded });

    // peers
    let mut roles = vec![PeerRole::Silent; n];
    roles[requester] = PeerRole::Requester;
    let mut any_honest = false;
    for i in 0..n {
        if i == requester {
            continue;
        }
        roles[i] = match kernel::choose(G, 6) {
            0 | 1 => PeerRole::HonestWithBlock,
            2 => PeerRole::HonestWithoutBlock,
            3 | 4 => PeerRole::Liar,
            _ => PeerRole::Silent,
        };
        if roles[i] == PeerRole::HonestWithBlock {
            any_honest = true;
        }
    }
    if !any_honest && kernel::choose(G, 4) != 0 {
        // most runs have at least one honest peer holding the block (the liveness half needs it)
        let i = (requester + 1) % n;
        roles[i] = PeerRole::HonestWithBlock;
        any_honest = true;
    }
    let ts = kernel::choose(G, 8) * 500; // stabilisation: before it loss/dup/delay, after it timely
    let mut cfg = NetCfg::benign(n);
    cfg.base_ms = 1 + kernel::choose(G, 30);
    cfg.jitter_ms = kernel::choose(G, 60);
    if kernel::choose(G, 2) == 1 {
        cfg.loss_ppm = [50_000, 200_000, 500_000][kernel::choose(G, 3) as usize];
    }
    if kernel::choose(G, 3) == 1 {
        cfg.dup_ppm = 100_000;
    }
    if kernel::choose(G, 3) == 1 {
        cfg.straggle_ppm = 100_000;
        cfg.straggle_max_ms = 1500;
    }
    cfg.stabilise_at_ms = Some(ts);
    cfg.post_delay_ms = 100;
    // Bounded liveness is only demanded when honest holders carry enough stake for the bound to be
    // implied: a request is sent to 3 stake-weighted peers and retried every REPAIR_TIMEOUT; with a
    // holder fraction f >= 0.3 a request misses all holders with probability <= 0.7^3 per attempt, so
    // 30 attempts leave < 1e-12 per request (hundreds of requests per block).
    let peer_stake: u64 = (0..n).filter(|i| *i != requester).map(|i| stakes[i]).sum();
    let holder_stake: u64 = (0..n).filter(|i| roles[*i] == PeerRole::HonestWithBlock).map(|i| stakes[i]).sum();
    let liveness_demanded = any_honest && holder_stake * 10 >= peer_stake * 3;
    let liveness_bound_ms = 30 * 500; // R = 30 * REPAIR_TIMEOUT
    let duration = ts + liveness_bound_ms + 2_000;
    let tokio_seed = kernel::choose(G, 1 << 30);
    kernel::event_nt(&format!("repair cfg n={n} requester={requester} leader={leader} slot={slot} slices={n_slices} byz_leader={byz_leader} roles={roles:?} ts={ts}"));

    let rt = tokio::runtime::Builder::new_current_thread()
        .enable_time()
        .start_paused(true)
        .rng_seed(tokio::runtime::RngSeed::from_bytes(&tokio_seed.to_le_bytes()))
        .build()
        .expect("rt");
    let roles2 = roles.clone();
    let stakes2 = stakes.clone();
    let truth2 = truth.clone();
    let prop_s = prop.to_string();
    let (completed_ms, responder_checked, beyond_last) = rt.block_on(async move {
        kernel::set_t0();
        let roles = roles2;
        let stakes = stakes2;
        let truth = truth2;
        let net: SharedNet = NetCore::new(n, cfg);
        tokio::spawn(pump(net.clone()));
        // requester
        let (bs_tx, mut bs_rx) = mpsc::channel::<BlockstoreEvent>(100_000);
        let req_bs: SharedBlockstore = Arc::new(RwLock::new(BlockstoreImpl::new(bs_tx)));
        let (pool_tx, mut pool_rx) = mpsc::channel(100_000);
        let (rep_tx, rep_rx) = mpsc::channel::<BlockId>(1024);
        let req_pool: SharedPool = Arc::new(RwLock::new(PoolImpl::new(keys::vepoch(requester, &stakes), pool_tx, rep_tx.clone())));
        let rq_net = SimNet::<RepairRequest, RepairResponse>::new(&net, port_of(requester, Iface::RepairReq));
        let mut repair = Repair::new(req_bs.clone(), req_pool.clone(), rq_net, keys::vepoch(requester, &stakes));
        tokio::spawn(async move {
            kernel::set_task_name("repair-loop");
            repair.repair_loop(rep_rx).await;
        });
        tokio::spawn(async move { while pool_rx.recv().await.is_some() {} });
        // the requester may already hold dissemination data for the slot (must stay untouched)
        let dis_prefix = kernel::choose(G, 3) == 1;
        if dis_prefix {
            let mut bs = req_bs.write().await;
            for s in truth.other.shreds[0].iter().take(5) {
                let _ = bs.add_shred_from_dissemination(s.clone()).await;
            }
        }
        // peers
        let mut honest_with_block: Vec<usize> = Vec::new();
        let local = tokio::task::LocalSet::new();
        let mut keep: Vec<Box<dyn std::any::Any>> = Vec::new();
        for i in 0..n {
            match roles[i] {
                PeerRole::Requester => {}
                PeerRole::HonestWithBlock | PeerRole::HonestWithoutBlock => {
                    let (tx, mut rx) = mpsc::channel::<BlockstoreEvent>(100_000);
                    let mut bsi = BlockstoreImpl::new(tx);
                    if roles[i] == PeerRole::HonestWithBlock {
                        for slice_shreds in &truth.blk.shreds {
                            for s in slice_shreds {
                                let _ = bsi.add_shred_from_dissemination(s.clone()).await;
                            }
                        }
                        honest_with_block.push(i);
                    }
                    tokio::spawn(async move { while rx.recv().await.is_some() {} });
                    let bs: SharedBlockstore = Arc::new(RwLock::new(bsi));
                    let rp = SimNet::<RepairResponse, RepairRequest>::new(&net, port_of(i, Iface::RepairResp));
                    let handler = RepairRequestHandler::new(keys::vepoch(i, &stakes), bs, rp);
                    tokio::spawn(async move {
                        kernel::set_task_name("repair-responder");
                        handler.run().await;
                    });
                }
                PeerRole::Liar => {
                    let rp = SimNet::<RepairResponse, RepairRequest>::new(&net, port_of(i, Iface::RepairResp));
                    local.spawn_local(liar_task(rp, truth.clone(), requester));
                }
                PeerRole::Silent => {
                    keep.push(Box::new(SimNet::<RepairResponse, RepairRequest>::new(&net, port_of(i, Iface::RepairResp))));
                }
            }
        }
        // a prober checks the honest responders' answers to every request shape (C14 responder half)
        let prober = SimNet::<RepairRequest, RepairResponse>::new(&net, port_of(n, Iface::RepairReq));
        let mut responder_checked = 0u64;
        let mut completed_ms: Option<u64> = None;
        let mut beyond_last = false;
        let mut block_events = 0u32;
        local
            .run_until(async {
                let _ = rep_tx.send(truth.id.clone()).await;
                let mut t = 0u64;
                let mut tap_cursor = 0usize;
                while t < duration {
                    tokio::time::sleep(Duration::from_millis(100)).await;
                    t += 100;
                    // requester's blockstore events
                    while let Ok(ev) = bs_rx.try_recv() {
                        match &ev {
                            BlockstoreEvent::InvalidBlock(s) => {
                                kernel::event(&format!("requester InvalidBlock s{}", s.inner()));
                                // everything the leader signed in this run belongs to one well-formed block,
                                // unless the run itself made the leader equivocate
                                let leader_signed_more = byz_leader
                                    || dis_prefix
                                    || kernel::with(|c| ["liar_other_block", "liar_shred_of_other_block", "liar_alt_signing_last_flag"].iter().any(|f| c.faults.contains_key(f)));
                                if !leader_signed_more {
                                    for p in ["C14", "C12"] {
                                        kernel::violation(
                                            p,
                                            "correct-leader-reported-during-repair",
                                            format!("the requester reported the correct leader of slot {} as misbehaving although every shred the leader signed belongs to the one block being repaired (peers only relayed, dropped or altered unsigned fields)", s.inner()),
                                        );
                                    }
                                }
                            }
                            BlockstoreEvent::FirstShred(s) => kernel::event(&format!("requester FirstShred s{}", s.inner())),
                            BlockstoreEvent::Block { .. } => {}
                        }
                        if let BlockstoreEvent::Block { slot: s, block_info } = ev {
                            block_events += 1;
                            kernel::event(&format!("requester Block s{} {}", s.inner(), crate::oracle::hx(block_info.verif_hash())));
                            if *block_info.verif_hash() != truth.id.1 {
                                kernel::violation(
                                    "C14",
                                    "stored:hash-mismatch",
                                    format!("repair of block {} announced a block with hash {}", crate::oracle::hx(&truth.id.1), crate::oracle::hx(block_info.verif_hash())),
                                );
                            } else if completed_ms.is_none() {
                                completed_ms = Some(kernel::now_ms());
                            }
                        }
                    }
                    // requests the requester put on the wire: never for a slice beyond the true last one
                    let recs: Vec<_> = {
                        let c = net.lock().unwrap();
                        let v = c.taps[tap_cursor..].to_vec();
                        tap_cursor = c.taps.len();
                        v
                    };
                    for rec in recs {
                        if rec.from_node == requester && rec.from_iface == Iface::RepairReq {
                            if let Ok(r) = alpenglow::network::deserialize::<RepairRequest>(&rec.bytes)
                                && let Some(p) = parse_req(&r)
                                && p.block == truth.id
                                && p.slice.is_some_and(|s| s as usize >= truth.blk.shreds.len())
                            {
                                beyond_last = true;
                                kernel::violation(
                                    "C15",
                                    "acted-on-false-position:slice-count-misreported",
                                    format!("requester asked for slice {} of a block that has {} slices: a last-slice proof verified for a position it does not hold", p.slice.unwrap(), truth.blk.shreds.len()),
                                );
                            }
                        }
                    }
                    if kernel::capped() || kernel::has_violation() {
                        break;
                    }
                    if completed_ms.is_some() && t >= ts + 1000 {
                        break;
                    }
                }
                // responder half: every request shape against an honest responder holding the block
                if let Some(&h) = honest_with_block.first()
                    && !kernel::capped()
                {
                    let nsl = truth.blk.shreds.len() as u64;
                    let probes: Vec<(u32, Option<u64>, Option<u64>, bool)> = vec![
                        (0, None, None, true),
                        (1, Some(kernel::choose(G, nsl)), None, true),
                        (1, Some(nsl + kernel::choose(G, 3)), None, false),
                        (2, Some(kernel::choose(G, nsl)), Some(kernel::choose(G, 64)), true),
                        (2, Some(nsl), Some(0), false),
                    ];
                    for (variant, sl, sh, should_serve) in probes {
                        if sl.is_some_and(|s| s >= 1024) {
                            continue;
                        }
                        let unknown_block = kernel::choose(G, 5) == 0;
                        let bid: BlockId = if unknown_block { (truth.id.0, wire::synth_hash(9, 9)) } else { truth.id.clone() };
                        let bytes = wire::repair_request_bytes(requester as u64, variant, &bid, sl, sh);
                        // sender must be a known validator: use the requester's index, responses go to it;
                        // so probe with the prober registered under a fresh validator index is impossible -
                        // instead read the response off the wire taps
                        let bytes = {
                            let mut b = bytes;
                            b[0..8].copy_from_slice(&(requester as u64).to_le_bytes());
                            b
                        };
                        let before = net.lock().unwrap().taps.len();
                        net.lock().unwrap().inject(port_of(n, Iface::RepairReq), port_of(h, Iface::RepairResp), bytes, Some(1));
                        tokio::time::sleep(Duration::from_millis(50)).await;
                        // the answer to *this* probe: the response embeds the request type right after its variant tag
                        let want_rt = wincode::serialize(&match variant {
                            0 => RepairRequestType::LastSliceRoot(bid.clone()),
                            1 => RepairRequestType::SliceRoot(bid.clone(), si(sl.unwrap_or(0) as usize)),
                            _ => RepairRequestType::Shred(bid.clone(), si(sl.unwrap_or(0) as usize), ShredIndex::new(sh.unwrap_or(0) as usize).expect("idx")),
                        })
                        .expect("ser");
                        let resp = {
                            let c = net.lock().unwrap();
                            c.taps[before..]
                                .iter()
                                .find(|r| r.from_node == h && r.from_iface == Iface::RepairResp && r.bytes.len() >= 4 + want_rt.len() && r.bytes[4..4 + want_rt.len()] == want_rt[..])
                                .map(|r| r.bytes.clone())
                        };
                        responder_checked += 1;
                        let Some(resp) = resp else {
                            kernel::violation("C14", "responder:no-answer", format!("honest responder {h} did not answer request variant {variant} slice {sl:?} shred {sh:?}"));
                            continue;
                        };
                        let Ok(resp) = alpenglow::network::deserialize::<RepairResponse>(&resp) else {
                            kernel::violation("C14", "responder:undecodable", "response does not decode".to_string());
                            continue;
                        };
                        let serve = should_serve && !unknown_block;
                        check_response(&resp, serve, variant, sl, sh, &truth, leader);
                    }
                }
                let _ = &prober;
            })
            .await;
        // stored data: what get_block returns under the requested id hashes to that id
        {
            let bs = req_bs.read().await;
            if let Some(_b) = bs.get_block(&truth.id) {
                // content check through the last-slice index and slice roots served
                for k in 0..truth.blk.shreds.len() {
                    let want = truth.blk.shreds[k][0].slice_root().clone();
                    if bs.get_slice_root(&truth.id, si(k)) != Some(want) {
                        kernel::violation("C14", "stored:wrong-content", format!("block filed under the requested id has a different slice root at {k}"));
                    }
                }
                if bs.get_last_slice_index(&truth.id) != Some(si(truth.blk.shreds.len() - 1)) {
                    kernel::violation("C14", "stored:wrong-content", "block filed under the requested id has a different slice count".to_string());
                }
            }
            // every shred filed under the requested identifier is a shred of exactly that block
            // (also while the block is still incomplete)
            'outer: for k in 0..truth.blk.shreds.len() {
                for i in 0..TOTAL_SHREDS {
                    if let Some(s) = bs.get_shred(&truth.id, si(k), ShredIndex::new(i).expect("idx"))
                        && wire::shred_bytes(s.as_shred()) != wire::shred_bytes(truth.blk.shreds[k][i].as_shred())
                    {
                        kernel::violation(
                            "C14",
                            "stored:foreign-shred",
                            format!("shred {k}/{i} stored under the requested block identifier is not a shred of that block"),
                        );
                        break 'outer;
                    }
                }
            }
            if dis_prefix {
                // dissemination data of the slot is untouched by repair
                for (i, s) in truth.other.shreds[0].iter().take(5).enumerate() {
                    let cached = bs.cached_commitment(Slot::new(slot), si(0));
                    if cached != Some(s.commitment()) {
                        kernel::violation("C14", "stored:dissemination-data-changed", format!("dissemination commitment of slot {slot} changed during repair (shred {i})"));
                        break;
                    }
                }
            }
        }
        let _ = (block_events, &prop_s);
        if completed_ms.is_none() {
            let bs = req_bs.read().await;
            let counts: Vec<usize> = (0..truth.blk.shreds.len())
                .map(|k| (0..TOTAL_SHREDS).filter(|i| bs.get_shred(&truth.id, si(k), ShredIndex::new(*i).expect("idx")).is_some()).count())
                .collect();
            kernel::event(&format!(
                "incomplete repair: shreds stored per slice {counts:?}, last slice index {:?}, get_block is_some {}, proof(0) is_some {}",
                bs.get_last_slice_index(&truth.id).map(|i| idx_usize(&i)),
                bs.get_block(&truth.id).is_some(),
                bs.create_double_merkle_proof(&truth.id, si(0)).is_some()
            ));
        }
        (completed_ms, responder_checked, beyond_last)
    });
    drop(rt);
    // liveness: completes within R after stabilisation while an honest peer holds the block
    let capped = kernel::capped();
    if !liveness_demanded && any_honest {
        kernel::probe("repair_liveness_not_demanded_low_holder_stake");
    }
    if liveness_demanded && !capped && completed_ms.is_none() && !kernel::has_violation() {
        kernel::violation(
            "C14",
            "liveness:repair-not-completed",
            format!("repair of a {n_slices}-slice block did not complete within {liveness_bound_ms} ms after stabilisation ({ts} ms) although an honest peer holds the block; roles {roles:?}"),
        );
    }
    if let Some(c) = completed_ms {
        kernel::probe("repairs_completed");
        if c > ts {
            kernel::probe_n("repair_ms_after_stabilisation_sum", c - ts);
        }
    }
    let liars = roles.iter().filter(|r| **r == PeerRole::Liar).count();
    kernel::fingerprint(&format!("{roles:?}{n_slices}{byz_leader}{completed_ms:?}"));
    let fsig = kernel::with(|c| c.faults.keys().map(|k| k.to_string()).collect::<Vec<_>>().join(","));
    kernel::fingerprint(&fsig);
    let sample = json!({"n": n, "requester": requester, "leader": leader, "slot": slot, "slices": n_slices, "byzantine_leader": byz_leader,
        "roles": roles.iter().map(|r| format!("{r:?}")).collect::<Vec<_>>(), "stabilise_at_ms": ts, "completed_at_ms": completed_ms,
        "responder_probes": responder_checked, "requested_beyond_last": beyond_last});
    let _ = BTreeSet::<u8>::new();
    WorldOutcome { nontrivial: liars > 0 || any_honest, sample, virt_ms: duration }
}

fn check_response(resp: &RepairResponse, serve: bool, variant: u32, sl: Option<u64>, sh: Option<u64>, t: &Truth, leader: usize) {
    let s = format!("{resp:?}");
    let is_nack = s.starts_with("Nack");
    if !serve {
        if !is_nack {
            kernel::violation("C14", "responder:served-unservable", format!("request variant {variant} slice {sl:?} that cannot be served was answered with {}", &s[..s.len().min(60)]));
        }
        return;
    }
    if is_nack {
        kernel::violation("C14", "responder:nack-for-held-block", format!("request variant {variant} slice {sl:?} shred {sh:?} about a held block was NACKed"));
        return;
    }
    match resp {
        RepairResponse::LastSliceRoot(_, idx, root, proof) => {
            if variant != 0 || !DoubleMerkleTree::check_proof_last(root, idx_usize(idx), &t.id.1, proof) || idx_usize(idx) != t.blk.shreds.len() - 1 {
                kernel::violation("C14", "responder:last-slice-root-does-not-verify", "LastSliceRoot answer does not verify against the block hash".to_string());
            }
        }
        RepairResponse::SliceRoot(_, root, proof) => {
            if variant != 1 || !DoubleMerkleTree::check_proof(root, sl.unwrap_or(0) as usize, &t.id.1, proof) {
                kernel::violation("C14", "responder:slice-root-does-not-verify", "SliceRoot answer does not verify against the block hash".to_string());
            }
        }
        RepairResponse::Shred(_, shred) => {
            let pk = keys::keypair(leader).pk;
            let ok = ValidatedShred::try_new(shred.clone(), None, &pk).is_ok();
            let genuine = wire::shred_bytes(t.blk.shreds[sl.unwrap_or(0) as usize][sh.unwrap_or(0) as usize].as_shred());
            if variant != 2 || !ok || wire::shred_bytes(shred) != genuine {
                kernel::violation("C14", "responder:shred-does-not-verify", "Shred answer is not the leader's shred".to_string());
            }
        }
        RepairResponse::Nack(_) => {}
    }
}

fn idx_usize(i: &alpenglow::types::SliceIndex) -> usize {
    let b = wincode::serialize(i).expect("ser");
    wire::get_u64(&b, 0) as usize
}

// =============================================================================================
// C15: the verification function under mutation, on trees of sampled sizes

pub fn c15_pure(max_leaves: usize) -> WorldOutcome {
    let n_leaves = match kernel::choose(G, 6) {
        0 => 1,
        1 => 2,
        2 => 1 << kernel::choose(G, 11),
        3 => (1usize << kernel::choose(G, 11)) + 1,
        4 => ((1usize << (1 + kernel::choose(G, 10))) - 1).max(1),
        _ => 1 + kernel::choose(G, max_leaves as u64) as usize,
    }
    .min(max_leaves.max(1));
    // half of the trees have 32-byte leaves, like the slice roots under a block hash: a leaf then
    // has the size of an inner node's value
    let hash_sized = kernel::choose(G, 2) == 1;
    let leaves: Vec<Vec<u8>> = (0..n_leaves)
        .map(|i| {
            let b = format!("leaf-{i}-{}", kernel::choose(G, 3)).into_bytes();
            if hash_sized { alpenglow::crypto::hash(&b).as_ref().to_vec() } else { b }
        })
        .collect();
    let tree = PlainMerkleTree::new(leaves.iter());
    let root = tree.get_root();
    let height = tree.height();
    let idx = kernel::choose(G, n_leaves as u64) as usize;
    let proof: Vec<Hash> = tree.create_proof(idx);
    kernel::event_nt(&format!("c15 leaves={n_leaves} idx={idx} height={height}"));
    // every proof the tree creates verifies
    if !PlainMerkleTree::check_proof(&leaves[idx], idx, &root, &proof) {
        kernel::violation("C15", "genuine-proof-rejected", format!("proof for leaf {idx} of {n_leaves} does not verify"));
    }
    let is_last = idx == n_leaves - 1;
    if PlainMerkleTree::check_proof_last(&leaves[idx], idx, &root, &proof) != is_last {
        kernel::violation(
            "C15",
            if is_last { "genuine-last-proof-rejected" } else { "non-last-leaf-accepted-as-last" },
            format!("check_proof_last for leaf {idx} of {n_leaves} returned {}", !is_last),
        );
    }
    // mutations: each must fail
    let n_mut = 4 + kernel::choose(G, 8);
    let mut classes = BTreeSet::new();
    for _ in 0..n_mut {
        let mut leaf = leaves[idx].clone();
        let mut index = idx;
        let mut r = root.clone();
        let mut p = proof.clone();
        let class = match kernel::choose(G, 9) {
            0 => {
                leaf.push(1);
                "leaf"
            }
            8 => {
                // an inner node's value presented as the leaf at the node's position, with the
                // proof shortened accordingly (leaf / inner-node domain separation)
                if height == 0 {
                    continue;
                }
                let k = 1 + kernel::choose(G, height as u64) as usize;
                let a = (idx >> k) << k;
                if a + (1usize << k) > n_leaves || k > p.len() {
                    continue;
                }
                let sub = PlainMerkleTree::new(leaves[a..a + (1usize << k)].iter());
                leaf = sub.get_root().as_ref().to_vec();
                index = idx >> k;
                p = p[k..].to_vec();
                "inner-node-as-leaf"
            }
            1 => {
                // another existing leaf's data at this index
                if n_leaves < 2 {
                    continue;
                }
                leaf = leaves[(idx + 1) % n_leaves].clone();
                "leaf-swap"
            }
            2 => {
                index = (idx + 1 + kernel::choose(G, 7) as usize) % (1usize << height.max(1));
                if index == idx {
                    continue;
                }
                "index-in-width"
            }
            3 => {
                // aliased modulo the tree width / beyond the width
                index = idx + (1 + kernel::choose(G, 5) as usize) * (1usize << height);
                "index-beyond-width"
            }
            4 => {
                index = idx + (1usize << (20 + kernel::choose(G, 12)));
                "index-huge"
            }
            5 => {
                let mut b: [u8; 32] = r.as_ref().try_into().unwrap();
                b[kernel::choose(G, 32) as usize] ^= 1 << kernel::choose(G, 8);
                r = hash_from(b);
                "root"
            }
            6 => {
                if p.is_empty() {
                    continue;
                }
                let i = kernel::choose(G, p.len() as u64) as usize;
                let mut b: [u8; 32] = p[i].as_ref().try_into().unwrap();
                b[kernel::choose(G, 32) as usize] ^= 1 << kernel::choose(G, 8);
                p[i] = hash_from(b);
                "proof-element"
            }
            _ => {
                let len = kernel::choose(G, 34) as usize;
                if len == p.len() {
                    continue;
                }
                p.resize(len, hash_from([0u8; 32]));
                "proof-length"
            }
        };
        classes.insert(class);
        let res = std::panic::catch_unwind(|| (PlainMerkleTree::check_proof(&leaf, index, &r, &p), PlainMerkleTree::check_proof_last(&leaf, index, &r, &p)));
        match res {
            Err(_) => {
                let ps = kernel::take_panics();
                kernel::violation("C15", format!("panic:{class}"), format!("verification panicked on a {class} mutation: {:?}", ps.last().map(|p| &p.message)));
            }
            Ok((a, b)) => {
                if a {
                    kernel::violation("C15", format!("mutant-verifies:{class}"), format!("check_proof accepted a {class} mutation (leaves {n_leaves}, leaf {idx}, claimed index {index}, proof length {})", p.len()));
                }
                if b {
                    kernel::violation("C15", format!("mutant-verifies-as-last:{class}"), format!("check_proof_last accepted a {class} mutation (leaves {n_leaves}, leaf {idx}, claimed index {index}, proof length {})", p.len()));
                }
            }
        }
    }
    kernel::fingerprint(&format!("{n_leaves}:{idx}:{classes:?}"));
    let _: Option<MerkleTree<Vec<u8>, Hash, Vec<Hash>>> = None;
    let _: Option<(SliceRoot, Shred)> = None;
    WorldOutcome { nontrivial: !classes.is_empty(), sample: json!({"leaves": n_leaves, "leaf_index": idx, "height": height, "mutation_classes": classes}), virt_ms: 0 }
}
