//! Reference models: small, independent re-statements of the protocol rules the properties quote,
//! written from the property statements (not from the code under test).

use std::collections::{BTreeMap, BTreeSet};

/// Block identity inside the pool world: (slot, tag). Tag 0 is reserved for "no block".
pub type Blk = (u64, u64);

#[derive(Clone, Copy, Debug, PartialEq, Eq, PartialOrd, Ord, Hash)]
pub enum VK {
    Notar,
    NotarFallback,
    Skip,
    SkipFallback,
    Final,
}

pub const ALL_VK: [VK; 5] = [VK::Notar, VK::NotarFallback, VK::Skip, VK::SkipFallback, VK::Final];

#[derive(Clone, Copy, Debug, PartialEq, Eq, PartialOrd, Ord, Hash)]
pub enum CK {
    Notar,
    NotarFallback,
    Skip,
    FastFinal,
    Final,
}

#[derive(Clone, Copy, Debug, PartialEq, Eq, PartialOrd, Ord, Hash)]
pub struct VoteId {
    pub v: usize,
    pub kind: VK,
    pub slot: u64,
    /// block tag for notar / notar-fallback, 0 otherwise
    pub tag: u64,
}

#[derive(Clone, Copy, Debug, PartialEq, Eq, PartialOrd, Ord)]
pub enum Offence {
    NotarDifferentHash,
    SkipAndNotarize,
    SkipAndFinalize,
    NotarFallbackAndFinalize,
}

#[derive(Clone, Debug, PartialEq, Eq)]
pub enum Verdict {
    Ok,
    Duplicate,
    /// any of the listed offences is an acceptable report
    Slashable(Vec<Offence>),
}

/// Accepted votes of one validator in one slot.
#[derive(Clone, Debug, Default)]
pub struct ValVotes {
    pub notar: Option<u64>,
    pub nf: BTreeSet<u64>,
    pub skip: bool,
    pub sf: bool,
    pub fin: bool,
}

/// C04: the verdict the property demands for a vote given the votes already accepted from the
/// same validator in the same slot — symmetric in arrival order by construction.
pub fn expected_verdict(st: &ValVotes, kind: VK, tag: u64) -> Verdict {
    let mut off = Vec::new();
    match kind {
        VK::Notar => {
            if st.skip {
                off.push(Offence::SkipAndNotarize);
            }
            if st.notar.is_some_and(|t| t != tag) {
                off.push(Offence::NotarDifferentHash);
            }
            if !off.is_empty() {
                return Verdict::Slashable(off);
            }
            if st.notar == Some(tag) || st.nf.contains(&tag) {
                return Verdict::Duplicate;
            }
        }
        VK::NotarFallback => {
            if st.fin {
                return Verdict::Slashable(vec![Offence::NotarFallbackAndFinalize]);
            }
            if st.nf.contains(&tag) || st.notar == Some(tag) {
                return Verdict::Duplicate;
            }
        }
        VK::Skip => {
            if st.fin {
                off.push(Offence::SkipAndFinalize);
            }
            if st.notar.is_some() {
                off.push(Offence::SkipAndNotarize);
            }
            if !off.is_empty() {
                return Verdict::Slashable(off);
            }
            if st.skip || st.sf {
                return Verdict::Duplicate;
            }
        }
        VK::SkipFallback => {
            if st.fin {
                return Verdict::Slashable(vec![Offence::SkipAndFinalize]);
            }
            if st.sf || st.skip {
                return Verdict::Duplicate;
            }
        }
        VK::Final => {
            if st.skip || st.sf {
                off.push(Offence::SkipAndFinalize);
            }
            if !st.nf.is_empty() {
                off.push(Offence::NotarFallbackAndFinalize);
            }
            if !off.is_empty() {
                return Verdict::Slashable(off);
            }
            if st.fin {
                return Verdict::Duplicate;
            }
        }
    }
    Verdict::Ok
}

pub fn apply_vote(st: &mut ValVotes, kind: VK, tag: u64) {
    match kind {
        VK::Notar => st.notar = Some(tag),
        VK::NotarFallback => {
            st.nf.insert(tag);
        }
        VK::Skip => st.skip = true,
        VK::SkipFallback => st.sf = true,
        VK::Final => st.fin = true,
    }
}

/// Accepted votes of all validators in one slot + derived stake sums.
#[derive(Clone, Debug)]
pub struct SlotModel {
    pub vals: Vec<ValVotes>,
}

impl SlotModel {
    pub fn new(n: usize) -> Self {
        Self { vals: vec![ValVotes::default(); n] }
    }

    pub fn notar_stake(&self, stakes: &[u64], tag: u64) -> u64 {
        self.vals.iter().zip(stakes).filter(|(v, _)| v.notar == Some(tag)).map(|(_, s)| *s).sum()
    }

    pub fn nf_stake(&self, stakes: &[u64], tag: u64) -> u64 {
        self.vals.iter().zip(stakes).filter(|(v, _)| v.nf.contains(&tag)).map(|(_, s)| *s).sum()
    }

    pub fn skip_stake(&self, stakes: &[u64]) -> u64 {
        self.vals.iter().zip(stakes).filter(|(v, _)| v.skip).map(|(_, s)| *s).sum()
    }

    pub fn sf_stake(&self, stakes: &[u64]) -> u64 {
        self.vals.iter().zip(stakes).filter(|(v, _)| v.sf).map(|(_, s)| *s).sum()
    }

    pub fn final_stake(&self, stakes: &[u64]) -> u64 {
        self.vals.iter().zip(stakes).filter(|(v, _)| v.fin).map(|(_, s)| *s).sum()
    }

    pub fn total_notar_stake(&self, stakes: &[u64]) -> u64 {
        self.vals.iter().zip(stakes).filter(|(v, _)| v.notar.is_some()).map(|(_, s)| *s).sum()
    }

    pub fn notar_tags(&self) -> BTreeSet<u64> {
        self.vals.iter().filter_map(|v| v.notar).collect()
    }

    pub fn all_tags(&self) -> BTreeSet<u64> {
        let mut t = self.notar_tags();
        for v in &self.vals {
            t.extend(v.nf.iter().copied());
        }
        t
    }

    pub fn max_notar_stake(&self, stakes: &[u64]) -> u64 {
        self.notar_tags().iter().map(|t| self.notar_stake(stakes, *t)).max().unwrap_or(0)
    }

    /// signers the property demands in a certificate of the given type (for `tag` where relevant)
    pub fn expected_signers(&self, ck: CK, tag: u64) -> BTreeSet<usize> {
        let mut s = BTreeSet::new();
        for (i, v) in self.vals.iter().enumerate() {
            let yes = match ck {
                CK::Notar | CK::FastFinal => v.notar == Some(tag),
                CK::NotarFallback => v.notar == Some(tag) || v.nf.contains(&tag),
                CK::Skip => v.skip || v.sf,
                CK::Final => v.fin,
            };
            if yes {
                s.insert(i);
            }
        }
        s
    }
}

pub fn frac_met(value: u64, total: u64, num: u64, den: u64) -> bool {
    u128::from(value) * u128::from(den) >= u128::from(total) * u128::from(num)
}

pub fn q20(v: u64, t: u64) -> bool {
    frac_met(v, t, 1, 5)
}
pub fn q40(v: u64, t: u64) -> bool {
    frac_met(v, t, 2, 5)
}
pub fn q60(v: u64, t: u64) -> bool {
    frac_met(v, t, 3, 5)
}
pub fn q80(v: u64, t: u64) -> bool {
    frac_met(v, t, 4, 5)
}

/// C03: does the vote table alone demand a certificate of this type?
pub fn threshold_reached(m: &SlotModel, stakes: &[u64], ck: CK, tag: u64) -> bool {
    let total: u64 = stakes.iter().sum();
    match ck {
        CK::Notar => q60(m.notar_stake(stakes, tag), total),
        CK::FastFinal => q80(m.notar_stake(stakes, tag), total),
        CK::NotarFallback => {
            let signers = m.expected_signers(CK::NotarFallback, tag);
            q60(signers.iter().map(|i| stakes[*i]).sum(), total)
        }
        CK::Skip => {
            let signers = m.expected_signers(CK::Skip, 0);
            q60(signers.iter().map(|i| stakes[*i]).sum(), total)
        }
        CK::Final => q60(m.final_stake(stakes), total),
    }
}

/// C06: the stake part of the safe-to-notar condition.
pub fn s2n_stake_condition(m: &SlotModel, stakes: &[u64], tag: u64) -> bool {
    let total: u64 = stakes.iter().sum();
    let notar = m.notar_stake(stakes, tag);
    q40(notar, total) || (q20(notar, total) && q60(notar + m.skip_stake(stakes), total))
}

/// C06: the stake part of the safe-to-skip condition.
pub fn s2s_stake_condition(m: &SlotModel, stakes: &[u64]) -> bool {
    let total: u64 = stakes.iter().sum();
    q40(m.skip_stake(stakes) + m.total_notar_stake(stakes) - m.max_notar_stake(stakes), total)
}

// ---------------------------------------------------------------------------------------------
// Certificate-level reference (C07 / C08)

#[derive(Clone, Debug, Default)]
pub struct CertView {
    /// certificates held, by slot
    pub notar: BTreeMap<u64, u64>,
    pub nf: BTreeMap<u64, BTreeSet<u64>>,
    pub ff: BTreeMap<u64, u64>,
    pub fin: BTreeSet<u64>,
    pub skip: BTreeSet<u64>,
    /// registered block -> parent
    pub parents: BTreeMap<Blk, Blk>,
}

#[derive(Clone, Debug, Default, PartialEq, Eq)]
pub struct Finality {
    pub direct: BTreeMap<u64, u64>,
    pub implicit: BTreeMap<u64, u64>,
    pub implicit_skipped: BTreeSet<u64>,
}

impl Finality {
    pub fn highest_direct(&self) -> u64 {
        self.direct.keys().next_back().copied().unwrap_or(0)
    }

    pub fn decided(&self, s: u64) -> bool {
        s == 0 || self.direct.contains_key(&s) || self.implicit.contains_key(&s) || self.implicit_skipped.contains(&s)
    }

    /// end of the contiguous decided prefix (slot 0 is decided by definition)
    pub fn watermark(&self) -> u64 {
        let mut s = 0;
        while self.decided(s + 1) {
            s += 1;
        }
        s
    }

    pub fn finalized_block(&self, s: u64) -> Option<u64> {
        self.direct.get(&s).or_else(|| self.implicit.get(&s)).copied()
    }
}

impl CertView {
    /// C08: finalized(s,b) iff FastFinal(s,b) or (Final(s) and Notar(s,b)); ancestors of finalized
    /// blocks are finalized and the slots between them skipped, as far as parent links are known.
    pub fn finality(&self) -> Finality {
        let mut f = Finality::default();
        for (s, t) in &self.ff {
            f.direct.insert(*s, *t);
        }
        for s in &self.fin {
            if let Some(t) = self.notar.get(s) {
                f.direct.entry(*s).or_insert(*t);
            }
        }
        let starts: Vec<Blk> = f.direct.iter().map(|(s, t)| (*s, *t)).collect();
        for b in starts {
            let mut cur = b;
            while let Some(p) = self.parents.get(&cur) {
                for s in p.0 + 1..cur.0 {
                    f.implicit_skipped.insert(s);
                }
                if p.0 == 0 {
                    break;
                }
                if !f.direct.contains_key(&p.0) {
                    f.implicit.insert(p.0, p.1);
                }
                cur = *p;
            }
        }
        f
    }

    pub fn certified(&self, b: Blk) -> bool {
        if b == (0, 0) {
            return true;
        }
        self.notar.get(&b.0) == Some(&b.1) || self.ff.get(&b.0) == Some(&b.1) || self.nf.get(&b.0).is_some_and(|s| s.contains(&b.1))
    }

    /// all blocks that count as possible parents: certified, finalized (either way), genesis
    pub fn parent_candidates(&self, f: &Finality) -> BTreeSet<Blk> {
        let mut c: BTreeSet<Blk> = BTreeSet::new();
        c.insert((0, 0));
        for (s, t) in &self.notar {
            c.insert((*s, *t));
        }
        for (s, t) in &self.ff {
            c.insert((*s, *t));
        }
        for (s, ts) in &self.nf {
            for t in ts {
                c.insert((*s, *t));
            }
        }
        for (s, t) in f.direct.iter().chain(f.implicit.iter()) {
            c.insert((*s, *t));
        }
        c
    }

    /// C07: b is a ready parent for window-first slot s iff b is a candidate in an earlier slot and
    /// every slot strictly between is skip-certified or implicitly skipped.
    pub fn ready_parents(&self, f: &Finality, s: u64) -> BTreeSet<Blk> {
        let mut out = BTreeSet::new();
        for b in self.parent_candidates(f) {
            if b.0 >= s {
                continue;
            }
            if (b.0 + 1..s).all(|x| self.skip.contains(&x) || f.implicit_skipped.contains(&x)) {
                out.insert(b);
            }
        }
        out
    }
}
