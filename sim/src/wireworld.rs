//! W5 `wire` component checks: C19 (round-trip, strict decoding, datagram size) and the
//! component half of C09 (forged votes / certificates against `Validated*::try_new`), on messages
//! as they travel over the transport: every check works on wire bytes and the crate's own codecs.

use std::collections::BTreeSet;

use alpenglow::consensus::{
    Cert, ConsensusMessage, EpochInfo, FastFinalCert, FinalCert, FinalVote, NotarCert, NotarFallbackCert, NotarFallbackVote, NotarVote,
    SkipCert, SkipFallbackVote, SkipVote, ValidatedCert, ValidatedVote, Vote,
};
use alpenglow::crypto::merkle::BlockHash;
use alpenglow::network::MTU_BYTES;
use alpenglow::repair::{RepairRequest, RepairRequestType, RepairResponse};
use alpenglow::shredder::{AontShredder, CodingOnlyShredder, PetsShredder, RegularShredder, Shred, ShredIndex, Shredder};
use alpenglow::types::{Slice, Slot};
use alpenglow::{Transaction, ValidatorIndex};
use serde_json::json;
use wincode::config::DefaultConfig;
use wincode::{SchemaRead, SchemaWrite};

use crate::kernel;
use crate::keys;
use crate::model::{CK, VK};
use crate::props::WorldOutcome;
use crate::wire::{self, si};

const G: &str = "gen";
const M: &str = "mut";

fn hash_from(b: [u8; 32]) -> BlockHash {
    let h: alpenglow::crypto::Hash = wincode::deserialize(&b).expect("hash");
    h.into()
}

pub fn sign_vote(v: usize, kind: VK, slot: u64, hash: &BlockHash) -> Vote {
    let kp = keys::keypair(v);
    let me = ValidatorIndex::new(v as u64);
    let s = Slot::new(slot);
    match kind {
        VK::Notar => Vote::new_notar(s, hash.clone(), &kp.vsk, me),
        VK::NotarFallback => Vote::new_notar_fallback(s, hash.clone(), &kp.vsk, me),
        VK::Skip => Vote::new_skip(s, &kp.vsk, me),
        VK::SkipFallback => Vote::new_skip_fallback(s, &kp.vsk, me),
        VK::Final => Vote::new_final(s, &kp.vsk, me),
    }
}

pub fn honest_cert(ck: CK, slot: u64, hash: &BlockHash, prim: &[usize], fall: &[usize], validators: &[alpenglow::ValidatorInfo]) -> Option<Cert> {
    let s = Slot::new(slot);
    let kpv = |v: &usize| (keys::keypair(*v), ValidatorIndex::new(*v as u64));
    Some(match ck {
        CK::Notar | CK::FastFinal => {
            if prim.is_empty() {
                return None;
            }
            let votes: Vec<NotarVote> = prim.iter().map(|v| { let (kp, me) = kpv(v); NotarVote::new(s, hash.clone(), &kp.vsk, me) }).collect();
            if ck == CK::Notar { Cert::Notar(NotarCert::try_new(&votes, validators).ok()?) } else { Cert::FastFinal(FastFinalCert::try_new(&votes, validators).ok()?) }
        }
        CK::NotarFallback => {
            if prim.is_empty() && fall.is_empty() {
                return None;
            }
            let a: Vec<NotarVote> = prim.iter().map(|v| { let (kp, me) = kpv(v); NotarVote::new(s, hash.clone(), &kp.vsk, me) }).collect();
            let b: Vec<NotarFallbackVote> = fall.iter().map(|v| { let (kp, me) = kpv(v); NotarFallbackVote::new(s, hash.clone(), &kp.vsk, me) }).collect();
            Cert::NotarFallback(NotarFallbackCert::try_new(&a, &b, validators).ok()?)
        }
        CK::Skip => {
            if prim.is_empty() && fall.is_empty() {
                return None;
            }
            let a: Vec<SkipVote> = prim.iter().map(|v| { let (kp, me) = kpv(v); SkipVote::new(s, &kp.vsk, me) }).collect();
            let b: Vec<SkipFallbackVote> = fall.iter().map(|v| { let (kp, me) = kpv(v); SkipFallbackVote::new(s, &kp.vsk, me) }).collect();
            Cert::Skip(SkipCert::try_new(&a, &b, validators).ok()?)
        }
        CK::Final => {
            if prim.is_empty() {
                return None;
            }
            let a: Vec<FinalVote> = prim.iter().map(|v| { let (kp, me) = kpv(v); FinalVote::new(s, &kp.vsk, me) }).collect();
            Cert::Final(FinalCert::try_new(&a, validators).ok()?)
        }
    })
}

// ---- certificate wire layout (inside ConsensusMessage: u32 1 | u32 cert tag | fields) ----
#[derive(Clone, Debug)]
struct Half {
    sig_off: usize,
    nbits: u64,
    words_off: usize,
    nwords: usize,
}

#[derive(Clone, Debug)]
struct ParsedCert {
    tag: u32,
    slot: u64,
    hash: Option<[u8; 32]>,
    halves: Vec<Option<Half>>,
    stake_off: usize,
}

fn parse_half(b: &[u8], off: usize) -> Option<(Half, usize)> {
    if b.len() < off + 112 {
        return None;
    }
    let nbits = wire::get_u64(b, off + 96);
    let nwords = wire::get_u64(b, off + 104) as usize;
    let words_off = off + 112;
    let end = words_off.checked_add(nwords.checked_mul(8)?)?;
    if b.len() < end {
        return None;
    }
    Some((Half { sig_off: off, nbits, words_off, nwords }, end))
}

fn parse_cert(b: &[u8]) -> Option<ParsedCert> {
    if b.len() < 16 || u32::from_le_bytes(b[0..4].try_into().ok()?) != 1 {
        return None;
    }
    let tag = u32::from_le_bytes(b[4..8].try_into().ok()?);
    let slot = wire::get_u64(b, 8);
    let mut off = 16;
    // tags: 0 Notar, 1 NotarFallback, 2 Skip, 3 FastFinal, 4 Final
    let hash = if matches!(tag, 0 | 1 | 3) {
        let h: [u8; 32] = b.get(off..off + 32)?.try_into().ok()?;
        off += 32;
        Some(h)
    } else {
        None
    };
    let mut halves = Vec::new();
    if matches!(tag, 1 | 2) {
        for _ in 0..2 {
            let present = *b.get(off)?;
            off += 1;
            if present == 1 {
                let (h, end) = parse_half(b, off)?;
                halves.push(Some(h));
                off = end;
            } else {
                halves.push(None);
            }
        }
    } else {
        let (h, end) = parse_half(b, off)?;
        halves.push(Some(h));
        off = end;
    }
    if b.len() != off + 8 {
        return None;
    }
    Some(ParsedCert { tag, slot, hash, halves, stake_off: off })
}

fn half_signers(b: &[u8], h: &Half) -> Vec<usize> {
    let mut v = Vec::new();
    for bit in 0..(h.nbits as usize).min(h.nwords * 64) {
        let w = wire::get_u64(b, h.words_off + 8 * (bit / 64));
        if w >> (bit % 64) & 1 == 1 {
            v.push(bit);
        }
    }
    v
}

/// Independent verdict for a certificate on the wire: every present half's signature bytes equal the
/// honest aggregation of exactly the marked signers over exactly this kind/slot/hash, bitmask length =
/// validator count, and the distinct signers' stake meets the type's threshold (declared stake ignored).
fn expected_cert_verdict(b: &[u8], stakes: &[u64], validators: &[alpenglow::ValidatorInfo]) -> Option<bool> {
    let p = parse_cert(b)?;
    let n = stakes.len();
    let ck = match p.tag {
        0 => CK::Notar,
        1 => CK::NotarFallback,
        2 => CK::Skip,
        3 => CK::FastFinal,
        4 => CK::Final,
        _ => return None,
    };
    let hash = p.hash.map(hash_from).unwrap_or_else(|| wire::synth_hash(0, 0));
    let mut all: BTreeSet<usize> = BTreeSet::new();
    let mut sets: Vec<Vec<usize>> = Vec::new();
    for h in &p.halves {
        match h {
            None => sets.push(vec![]),
            Some(h) => {
                if h.nbits as usize != n {
                    return Some(false);
                }
                let s = half_signers(b, h);
                if s.is_empty() || s.iter().any(|i| *i >= n) {
                    return Some(false);
                }
                all.extend(s.iter().copied());
                sets.push(s);
            }
        }
    }
    let total: u64 = stakes.iter().sum();
    let stake: u64 = all.iter().map(|i| stakes[*i]).sum();
    let num = if ck == CK::FastFinal { 4 } else { 3 };
    if u128::from(stake) * 5 < u128::from(total) * num {
        return Some(false);
    }
    let (prim, fall) = if sets.len() == 2 { (sets[0].clone(), sets[1].clone()) } else { (sets[0].clone(), vec![]) };
    let honest = honest_cert(ck, p.slot, &hash, &prim, &fall, validators)?;
    let hb = wincode::serialize(&ConsensusMessage::Cert(honest)).ok()?;
    let hp = parse_cert(&hb)?;
    for (a, c) in p.halves.iter().zip(hp.halves.iter()) {
        match (a, c) {
            (None, None) => {}
            (Some(a), Some(c)) => {
                if b[a.sig_off..a.sig_off + 96] != hb[c.sig_off..c.sig_off + 96] {
                    return Some(false);
                }
            }
            _ => return Some(false),
        }
    }
    Some(true)
}

pub fn mutate_cert(b: &[u8], other: &[u8]) -> Option<(Vec<u8>, &'static str)> {
    let p = parse_cert(b)?;
    let mut v = b.to_vec();
    let present: Vec<&Half> = p.halves.iter().flatten().collect();
    let h = present[kernel::choose(M, present.len() as u64) as usize];
    let class = match kernel::choose(M, 12) {
        0 => {
            // re-tag among layout-compatible certificate types
            let nt = match p.tag { 0 => 3, 3 => 0, 1 => 1, 2 => 2, _ => 4 };
            if nt == p.tag {
                return None;
            }
            v[4..8].copy_from_slice(&(nt as u32).to_le_bytes());
            "cert-kind"
        }
        1 => {
            wire::put_u64(&mut v, 8, p.slot.wrapping_add(1 + kernel::choose(M, 3)));
            "cert-slot"
        }
        2 => {
            p.hash?;
            v[16 + kernel::choose(M, 32) as usize] ^= 1 << kernel::choose(M, 8);
            "cert-hash"
        }
        3 => {
            // add or remove one signer bit
            if h.nwords == 0 {
                return None;
            }
            let bit = kernel::choose(M, h.nbits.max(1).min(h.nwords as u64 * 64)) as usize;
            let off = h.words_off + 8 * (bit / 64);
            if off + 8 > v.len() {
                return None;
            }
            let w = wire::get_u64(&v, off) ^ (1 << (bit % 64));
            wire::put_u64(&mut v, off, w);
            "cert-signer-set"
        }
        4 => {
            let nb = match kernel::choose(M, 4) { 0 => h.nbits.wrapping_add(1), 1 => h.nbits.saturating_sub(1), 2 => 2048, _ => 4096 };
            wire::put_u64(&mut v, h.sig_off + 96, nb);
            "cert-bitmask-length"
        }
        5 if kernel::choose(M, 2) == 1 => {
            // sig + T with T in the cofactor subgroup: on the curve, outside G1. The pairing cannot
            // tell sig and sig + T apart; only the subgroup check rejects these signature bytes.
            let Some(alt) = add_cofactor_point(&v[h.sig_off..h.sig_off + 96], 1 + kernel::choose(M, 5) as u8) else { return None };
            v[h.sig_off..h.sig_off + 96].copy_from_slice(&alt);
            "cert-signature-plus-cofactor-point"
        }
        5 => {
            v[h.sig_off + kernel::choose(M, 96) as usize] ^= 1 << kernel::choose(M, 8);
            "cert-signature-bytes"
        }
        6 => {
            let st = wire::get_u64(&v, p.stake_off);
            wire::put_u64(&mut v, p.stake_off, if kernel::choose(M, 2) == 0 { u64::MAX / 2 } else { st.wrapping_add(1 + kernel::choose(M, 1000)) });
            "cert-declared-stake"
        }
        7 => {
            // swap the two halves of a mixed certificate (signatures move between vote kinds)
            if p.halves.len() != 2 {
                return None;
            }
            let (Some(a), Some(c)) = (&p.halves[0], &p.halves[1]) else {
                // single present half moved to the other position
                let mut w = v[..if p.hash.is_some() { 48 } else { 16 }].to_vec();
                let body_start = w.len();
                let (first_present, half) = match (&p.halves[0], &p.halves[1]) {
                    (Some(h), None) => (true, h),
                    (None, Some(h)) => (false, h),
                    _ => return None,
                };
                let half_bytes = v[half.sig_off..half.words_off + 8 * half.nwords].to_vec();
                let _ = body_start;
                if first_present {
                    w.push(0);
                    w.push(1);
                    w.extend(half_bytes);
                } else {
                    w.push(1);
                    w.extend(half_bytes);
                    w.push(0);
                }
                w.extend_from_slice(&v[p.stake_off..]);
                return Some((w, "cert-halves-moved"));
            };
            let ab = v[a.sig_off..a.words_off + 8 * a.nwords].to_vec();
            let cb = v[c.sig_off..c.words_off + 8 * c.nwords].to_vec();
            let mut w = v[..a.sig_off].to_vec();
            w.extend(cb);
            w.push(1);
            w.extend(ab);
            w.extend_from_slice(&v[p.stake_off..]);
            v = w;
            "cert-halves-swapped"
        }
        8 => {
            // signature of another certificate under this header
            let o = parse_cert(other)?;
            let oh = o.halves.iter().flatten().next()?;
            let sig = other[oh.sig_off..oh.sig_off + 96].to_vec();
            v[h.sig_off..h.sig_off + 96].copy_from_slice(&sig);
            "cert-foreign-signature"
        }
        9 => {
            // drop signers below the threshold but keep the declared stake
            if h.nwords == 0 {
                return None;
            }
            let mut w = wire::get_u64(&v, h.words_off);
            for _ in 0..2 {
                if w != 0 {
                    w &= w - 1; // clears the lowest set bit
                }
            }
            wire::put_u64(&mut v, h.words_off, w);
            "cert-signers-removed"
        }
        10 => {
            let nw = wire::get_u64(&v, h.sig_off + 104);
            wire::put_u64(&mut v, h.sig_off + 104, nw.wrapping_add(1 + kernel::choose(M, 40)));
            "cert-word-count"
        }
        _ => {
            // out-of-range signer index: set a bit beyond the validator count (if a word has room)
            if h.nwords == 0 || h.nbits % 64 == 0 {
                return None;
            }
            let bit = h.nbits as usize + kernel::choose(M, 64 - h.nbits % 64) as usize;
            let off = h.words_off + 8 * (bit / 64);
            if off + 8 > v.len() {
                return None;
            }
            let w = wire::get_u64(&v, off) | (1 << (bit % 64));
            wire::put_u64(&mut v, off, w);
            "cert-signer-out-of-range"
        }
    };
    Some((v, class))
}

pub fn mutate_vote(b: &[u8], other: &[u8], n: usize) -> Option<(Vec<u8>, &'static str)> {
    // ConsensusMessage::Vote: u32 0 | u32 kind | u64 slot | [32 hash] | 96 sig | u64 signer
    let mut v = b.to_vec();
    let kind = u32::from_le_bytes(v[4..8].try_into().ok()?);
    if kind > 4 {
        return None;
    }
    let has_hash = kind <= 1;
    let sig_off = if has_hash { 48 } else { 16 };
    let signer_off = sig_off + 96;
    let class = match kernel::choose(M, 7) {
        0 => {
            let nk = if has_hash { 1 - kind } else { 2 + (kind - 2 + 1 + kernel::choose(M, 2) as u32) % 3 };
            v[4..8].copy_from_slice(&nk.to_le_bytes());
            "vote-kind"
        }
        1 => {
            let s = wire::get_u64(&v, 8);
            wire::put_u64(&mut v, 8, s.wrapping_add(1 + kernel::choose(M, 5)));
            "vote-slot"
        }
        2 => {
            if !has_hash {
                return None;
            }
            v[16 + kernel::choose(M, 32) as usize] ^= 1 << kernel::choose(M, 8);
            "vote-hash"
        }
        3 => {
            let s = wire::get_u64(&v, signer_off);
            wire::put_u64(&mut v, signer_off, (s % n as u64 + 1 + kernel::choose(M, (n - 1).max(1) as u64)) % n as u64);
            "vote-signer"
        }
        4 => {
            wire::put_u64(&mut v, signer_off, n as u64 + kernel::choose(M, 3) * 1000);
            "vote-signer-out-of-range"
        }
        5 => {
            v[sig_off + kernel::choose(M, 96) as usize] ^= 1 << kernel::choose(M, 8);
            "vote-signature-bytes"
        }
        _ => {
            // signature moved from another vote (other kind / slot / signer)
            let okind = u32::from_le_bytes(other[4..8].try_into().ok()?);
            let ooff = if okind <= 1 { 48 } else { 16 };
            let sig = other[ooff..ooff + 96].to_vec();
            v[sig_off..sig_off + 96].copy_from_slice(&sig);
            "vote-foreign-signature"
        }
    };
    Some((v, class))
}

fn epoch_for(n: usize) -> (Vec<u64>, EpochInfo) {
    let (stakes, _) = keys::draw_stakes(n, G);
    let e = keys::epoch(&stakes);
    (stakes, e)
}

fn draw_signers(stakes: &[u64], frac5: u64) -> Vec<usize> {
    let n = stakes.len();
    let total: u64 = stakes.iter().sum();
    let mut order: Vec<usize> = (0..n).collect();
    for i in (1..n).rev() {
        let j = i - kernel::choose(G, (i + 1) as u64) as usize;
        order.swap(i, j);
    }
    let mut out = Vec::new();
    let mut sum = 0u64;
    for v in order {
        if u128::from(sum) * 5 >= u128::from(total) * u128::from(frac5) {
            break;
        }
        out.push(v);
        sum += stakes[v];
    }
    out.sort_unstable();
    out
}

/// C09 (component half): forged consensus messages against ValidatedVote / ValidatedCert.
pub fn c09_forge() -> WorldOutcome {
    let n = 3 + kernel::choose(G, 8) as usize;
    let (stakes, epoch) = epoch_for(n);
    let validators = epoch.validators().to_vec();
    let slot = 1 + kernel::choose(G, 30);
    let hash = wire::synth_hash(slot, 1 + kernel::choose(G, 3));
    let mut classes: BTreeSet<&'static str> = BTreeSet::new();
    let mut accepted_genuine = 0;
    let mut rejected = 0;
    kernel::event_nt(&format!("c09 n={n} stakes={stakes:?} slot={slot}"));
    let rounds = 3 + kernel::choose(G, 5);
    for _ in 0..rounds {
        let is_cert = kernel::choose(G, 2) == 1;
        let (bytes, other) = if is_cert {
            let ck = [CK::Notar, CK::NotarFallback, CK::Skip, CK::FastFinal, CK::Final][kernel::choose(G, 5) as usize];
            // signer subsets around the threshold: just below / just at / above
            let frac = match (ck, kernel::choose(G, 3)) { (CK::FastFinal, 0) => 3, (CK::FastFinal, _) => 4, (_, 0) => 2, _ => 3 };
            let set = draw_signers(&stakes, frac);
            let (prim, fall) = if matches!(ck, CK::NotarFallback | CK::Skip) {
                let mut p = vec![];
                let mut f = vec![];
                for v in &set {
                    match kernel::choose(G, 4) {
                        0 => f.push(*v),
                        1 => { p.push(*v); f.push(*v); } // same signer in both halves
                        _ => p.push(*v),
                    }
                }
                (p, f)
            } else {
                (set, vec![])
            };
            let Some(c) = honest_cert(ck, slot, &hash, &prim, &fall, &validators) else { continue };
            let oset = draw_signers(&stakes, 4);
            let Some(o) = honest_cert(CK::Skip, slot + 1, &hash, &oset, &[], &validators) else { continue };
            (wincode::serialize(&ConsensusMessage::Cert(c)).expect("ser"), wincode::serialize(&ConsensusMessage::Cert(o)).expect("ser"))
        } else {
            let kind = crate::model::ALL_VK[kernel::choose(G, 5) as usize];
            let v = kernel::choose(G, n as u64) as usize;
            let vote = sign_vote(v, kind, slot, &hash);
            let okind = crate::model::ALL_VK[kernel::choose(G, 5) as usize];
            let o = sign_vote(kernel::choose(G, n as u64) as usize, okind, slot + kernel::choose(G, 2), &hash);
            (wincode::serialize(&ConsensusMessage::Vote(vote)).expect("ser"), wincode::serialize(&ConsensusMessage::Vote(o)).expect("ser"))
        };
        // the unmutated message first, then a chain of 1-3 mutations
        let mut cur = bytes.clone();
        let depth = kernel::choose(M, 4);
        let mut chain: Vec<&'static str> = Vec::new();
        for _ in 0..depth {
            let m = if is_cert { mutate_cert(&cur, &other) } else { mutate_vote(&cur, &other, n) };
            if let Some((b, class)) = m {
                cur = b;
                chain.push(class);
                classes.insert(class);
            }
        }
        let Ok(msg) = alpenglow::network::deserialize::<ConsensusMessage>(&cur) else {
            kernel::probe("c09_rejected_by_decoder");
            rejected += 1;
            continue;
        };
        let res = std::panic::catch_unwind(std::panic::AssertUnwindSafe(|| match msg.clone() {
            ConsensusMessage::Vote(v) => ValidatedVote::try_new(v, &epoch).is_ok(),
            ConsensusMessage::Cert(c) => ValidatedCert::try_new(c, &epoch).is_ok(),
        }));
        let got = match res {
            Ok(g) => g,
            Err(_) => {
                let ps = kernel::take_panics();
                kernel::violation("C09", format!("panic:{}", chain.last().copied().unwrap_or("unmutated")), format!("validation panicked on {chain:?}: {:?}", ps.last().map(|p| format!("{} @ {}", p.message, p.location))));
                break;
            }
        };
        let expected = match &msg {
            ConsensusMessage::Vote(v) => {
                let signer = v.signer().as_usize();
                if signer >= n {
                    false
                } else {
                    let kind = match v { Vote::Notar(_) => VK::Notar, Vote::NotarFallback(_) => VK::NotarFallback, Vote::Skip(_) => VK::Skip, Vote::SkipFallback(_) => VK::SkipFallback, Vote::Final(_) => VK::Final };
                    let h = v.block_hash().cloned().unwrap_or_else(|| hash.clone());
                    let honest = wincode::serialize(&ConsensusMessage::Vote(sign_vote(signer, kind, v.slot().inner(), &h))).expect("ser");
                    honest == cur
                }
            }
            ConsensusMessage::Cert(_) => match expected_cert_verdict(&cur, &stakes, &validators) {
                Some(e) => e,
                None => {
                    kernel::probe("c09_unparsed_cert_skipped");
                    continue;
                }
            },
        };
        kernel::event_nt(&format!("forge {chain:?} expected={expected} got={got}"));
        if got && !expected {
            kernel::violation(
                "C09",
                format!("forged-admitted:{}", chain.last().copied().unwrap_or("unmutated")),
                format!("message altered by {chain:?} was admitted by validation (n={n}, stakes {stakes:?})"),
            );
        } else if !got && expected {
            kernel::violation(
                "C09",
                format!("genuine-rejected:{}", chain.last().copied().unwrap_or("unmutated")),
                format!("authentic, sufficiently backed message rejected (after {chain:?}; n={n}, stakes {stakes:?})"),
            );
        }
        if got {
            accepted_genuine += 1;
        } else {
            rejected += 1;
        }
    }
    for c in &classes {
        kernel::fingerprint(c);
    }
    kernel::fingerprint(&format!("{n}{accepted_genuine}{rejected}"));
    WorldOutcome { nontrivial: !classes.is_empty(), sample: json!({"n": n, "stakes": stakes, "mutation_classes": classes, "admitted": accepted_genuine, "rejected": rejected}), virt_ms: 0 }
}

// =============================================================================================
// C19

fn roundtrip<T>(name: &'static str, msg: &T, emitted_by_correct_node: bool) -> Option<Vec<u8>>
where
    T: SchemaWrite<DefaultConfig, Src = T> + for<'de> SchemaRead<'de, alpenglow::network::NetworkMessageConfig, Dst = T>,
{
    let bytes = wincode::serialize(msg).ok()?;
    kernel::probe("c19_messages");
    if emitted_by_correct_node && bytes.len() > MTU_BYTES {
        kernel::violation("C19", format!("oversize:{name}"), format!("{name} encodes to {} bytes (> {MTU_BYTES})", bytes.len()));
    }
    match alpenglow::network::deserialize::<T>(&bytes) {
        Ok(m) => {
            let again = wincode::serialize(&m).expect("ser");
            if again != bytes {
                kernel::violation("C19", format!("roundtrip:{name}"), format!("{name}: decode(encode(m)) re-encodes differently"));
            }
        }
        Err(e) => kernel::violation("C19", format!("own-encoding-rejected:{name}"), format!("{name}: {e:?}")),
    }
    // trailing bytes are rejected
    let mut t = bytes.clone();
    t.push(kernel::choose(M, 256) as u8);
    let more = kernel::choose(M, 4);
    if more > 0 {
        t.extend(std::iter::repeat_n(0x5A, [0usize, 1, 7, 700][more as usize]));
    }
    if alpenglow::network::deserialize::<T>(&t).is_ok() {
        kernel::violation("C19", format!("trailing-bytes-accepted:{name}"), format!("{name} with one trailing byte decodes"));
    }
    // arbitrary corruption: reject, or decode to something with a stable encoding; never panic
    for _ in 0..(1 + kernel::choose(M, 3)) {
        let c = crate::net::corrupt(&bytes);
        let r = std::panic::catch_unwind(|| alpenglow::network::deserialize::<T>(&c).ok().map(|m| wincode::serialize(&m).expect("ser")));
        match r {
            Err(_) => {
                let ps = kernel::take_panics();
                kernel::violation("C19", format!("decoder-panic:{name}"), format!("{name}: decoder panicked on corrupted bytes: {:?}", ps.last().map(|p| format!("{} @ {}", p.message, p.location))));
            }
            Ok(None) => kernel::probe("c19_corrupt_rejected"),
            Ok(Some(e1)) => {
                kernel::probe("c19_corrupt_decoded");
                match alpenglow::network::deserialize::<T>(&e1) {
                    Ok(m2) => {
                        if wincode::serialize(&m2).expect("ser") != e1 {
                            kernel::violation("C19", format!("unstable-encoding:{name}"), format!("{name}: re-encoding of a decoded byte string is not stable"));
                        }
                    }
                    Err(_) => kernel::violation("C19", format!("reencoding-rejected:{name}"), format!("{name}: re-encoding of a successfully decoded byte string does not decode")),
                }
            }
        }
    }
    Some(bytes)
}

pub fn c19_wire(max_validators: usize) -> WorldOutcome {
    let what = kernel::choose(G, 6);
    let mut sizes = serde_json::Map::new();
    match what {
        0 | 1 => {
            // votes and certificates, validator-set sizes up to the supported maximum of signers
            let n = match kernel::choose(G, 6) {
                0 => 1 + kernel::choose(G, 8) as usize,
                1 => 64,
                2 => 65,
                3 => 512,
                4 => 1024,
                _ => max_validators,
            }
            .min(max_validators);
            let stakes = vec![1u64; n];
            let epoch = keys::epoch(&stakes);
            let validators = epoch.validators().to_vec();
            let slot = kernel::choose(G, 1 << 40);
            let hash = wire::synth_hash(slot, 1);
            for k in crate::model::ALL_VK {
                let v = sign_vote(kernel::choose(G, n as u64) as usize, k, slot, &hash);
                if let Some(b) = roundtrip("vote", &ConsensusMessage::Vote(v), true) {
                    sizes.insert(format!("vote_{k:?}"), json!(b.len()));
                }
            }
            // few signers suffice: the bitmask length, not the signer count, determines the size;
            // always include the highest validator index so the last word is populated
            let mut prim: Vec<usize> = (0..3.min(n)).map(|_| kernel::choose(G, n as u64) as usize).collect();
            prim.push(n - 1);
            prim.sort_unstable();
            prim.dedup();
            let mut fall: Vec<usize> = (0..3.min(n)).map(|_| kernel::choose(G, n as u64) as usize).collect();
            fall.push(n - 1);
            fall.sort_unstable();
            fall.dedup();
            for ck in [CK::Notar, CK::NotarFallback, CK::Skip, CK::FastFinal, CK::Final] {
                if let Some(c) = honest_cert(ck, slot, &hash, &prim, &fall, &validators)
                    && let Some(b) = roundtrip("cert", &ConsensusMessage::Cert(c), true)
                {
                    sizes.insert(format!("cert_{ck:?}_n{n}"), json!(b.len()));
                }
            }
        }
        2 => {
            // shreds of every shredder at boundary payload sizes
            let kp = keys::keypair(0);
            fn shreds_of<S: Shredder>(len: usize, sk: &alpenglow::crypto::signature::SecretKey) -> Vec<Shred> {
                let max = S::MAX_DATA_SIZE - 9 - 41;
                let slice = Slice { slot: Slot::new(7), slice_index: si(1023), is_last: true, parent: Some((Slot::new(6), wire::synth_hash(6, 1))), data: vec![0xAB; len.min(max)] };
                S::default().shred(&slice, sk).map(|a| a.iter().map(|s| s.as_shred().clone()).collect()).unwrap_or_default()
            }
            let len = match kernel::choose(G, 4) { 0 => 0, 1 => usize::MAX, 2 => kernel::choose(G, 2000) as usize, _ => kernel::choose(G, 32_000) as usize };
            let all = match kernel::choose(G, 4) {
                0 => shreds_of::<RegularShredder>(len, &kp.sk),
                1 => shreds_of::<CodingOnlyShredder>(len, &kp.sk),
                2 => shreds_of::<AontShredder>(len, &kp.sk),
                _ => shreds_of::<PetsShredder>(len, &kp.sk),
            };
            for i in [0usize, 31, 32, 63] {
                if let Some(s) = all.get(i)
                    && let Some(b) = roundtrip("shred", s, true)
                {
                    sizes.insert(format!("shred_{i}"), json!(b.len()));
                }
            }
            // out-of-range shred / slice index is rejected by the decoder
            if let Some(s) = all.first() {
                let mut b = wire::shred_bytes(s);
                wire::put_u64(&mut b, wire::SHRED_OFF_INDEX, 64 + kernel::choose(M, 1000));
                if wire::decode_shred(&b).is_some() {
                    kernel::violation("C19", "out-of-range-index-accepted:shred-index", "shred index >= 64 decodes".to_string());
                }
                let mut b = wire::shred_bytes(s);
                wire::put_u64(&mut b, wire::SHRED_OFF_SLICE, 1024 + kernel::choose(M, 1000));
                if wire::decode_shred(&b).is_some() {
                    kernel::violation("C19", "out-of-range-index-accepted:slice-index", "slice index >= 1024 decodes".to_string());
                }
            }
        }
        3 => {
            // repair requests and responses, incl. maximal proofs (1024 slices => height 10)
            let kp = keys::keypair(0);
            let n_slices = [1usize, 2, 3, 33, 1024][kernel::choose(G, 5) as usize];
            let blk = wire::simple_block(Slot::new(9), (Slot::new(8), wire::synth_hash(8, 1)), n_slices.min(if kernel::choose(G, 4) == 0 { 1024 } else { 40 }), 3, &kp.sk);
            let id = (Slot::new(9), blk.hash.clone());
            let k = kernel::choose(G, blk.shreds.len() as u64) as usize;
            let last = blk.shreds.len() - 1;
            let rts = [
                RepairRequestType::LastSliceRoot(id.clone()),
                RepairRequestType::SliceRoot(id.clone(), si(k)),
                RepairRequestType::Shred(id.clone(), si(k), ShredIndex::new(kernel::choose(G, 64) as usize).expect("idx")),
            ];
            for (i, rt) in rts.iter().enumerate() {
                let rb = wire::repair_request_bytes(kernel::choose(G, 2048), i as u32, &id, if i >= 1 { Some(k as u64) } else { None }, if i == 2 { Some(kernel::choose(G, 64)) } else { None });
                if let Ok(req) = alpenglow::network::deserialize::<RepairRequest>(&rb)
                    && let Some(b) = roundtrip("repair-request", &req, true)
                {
                    sizes.insert(format!("repair_request_{i}"), json!(b.len()));
                }
                let resp = match i {
                    0 => RepairResponse::LastSliceRoot(rt.clone(), si(last), blk.shreds[last][0].slice_root().clone(), blk.tree.create_proof(last)),
                    1 => RepairResponse::SliceRoot(rt.clone(), blk.shreds[k][0].slice_root().clone(), blk.tree.create_proof(k)),
                    _ => RepairResponse::Shred(rt.clone(), blk.shreds[k][kernel::choose(G, 64) as usize].as_shred().clone()),
                };
                if let Some(b) = roundtrip("repair-response", &resp, true) {
                    sizes.insert(format!("repair_response_{i}_slices{}", blk.shreds.len()), json!(b.len()));
                }
                let _ = roundtrip("repair-response", &RepairResponse::Nack(rt.clone()), true);
            }
            // out-of-range indices in requests
            let rb = wire::repair_request_bytes(0, 1, &id, Some(1024 + kernel::choose(M, 100)), None);
            if alpenglow::network::deserialize::<RepairRequest>(&rb).is_ok() {
                kernel::violation("C19", "out-of-range-index-accepted:repair-slice", "repair request with slice index >= 1024 decodes".to_string());
            }
            let rb = wire::repair_request_bytes(0, 2, &id, Some(0), Some(64 + kernel::choose(M, 100)));
            if alpenglow::network::deserialize::<RepairRequest>(&rb).is_ok() {
                kernel::violation("C19", "out-of-range-index-accepted:repair-shred", "repair request with shred index >= 64 decodes".to_string());
            }
        }
        4 => {
            for len in [0usize, 1, alpenglow::MAX_TRANSACTION_SIZE, kernel::choose(G, alpenglow::MAX_TRANSACTION_SIZE as u64 + 1) as usize] {
                if let Some(b) = roundtrip("transaction", &Transaction(vec![kernel::choose(G, 256) as u8; len]), true) {
                    sizes.insert(format!("tx_{len}"), json!(b.len()));
                }
            }
            // a message that fills the datagram exactly (not one a correct client sends): the
            // trailing-byte rule must hold at the MTU boundary too
            let _ = roundtrip("transaction-filling-the-datagram", &Transaction(vec![kernel::choose(G, 256) as u8; MTU_BYTES - 8]), false);
        }
        _ => {
            // arbitrary byte strings offered to every decoder
            let len = kernel::choose(G, 1600) as usize;
            let bytes: Vec<u8> = (0..len).map(|_| kernel::choose(M, 256) as u8).collect();
            fn offer<T>(name: &'static str, b: &[u8])
            where
                T: SchemaWrite<DefaultConfig, Src = T> + for<'de> SchemaRead<'de, alpenglow::network::NetworkMessageConfig, Dst = T>,
            {
                let r = std::panic::catch_unwind(|| alpenglow::network::deserialize::<T>(b).ok().map(|m| wincode::serialize(&m).expect("ser")));
                match r {
                    Err(_) => {
                        let _ = kernel::take_panics();
                        kernel::violation("C19", format!("decoder-panic:{name}"), format!("{name}: decoder panicked on arbitrary bytes"));
                    }
                    Ok(Some(e1)) => {
                        let ok = alpenglow::network::deserialize::<T>(&e1).ok().map(|m| wincode::serialize(&m).expect("ser")) == Some(e1);
                        if !ok {
                            kernel::violation("C19", format!("unstable-encoding:{name}"), format!("{name}: arbitrary bytes decoded to a value whose encoding is not stable"));
                        }
                    }
                    Ok(None) => {}
                }
            }
            offer::<ConsensusMessage>("consensus", &bytes);
            offer::<Shred>("shred", &bytes);
            offer::<RepairRequest>("repair-request", &bytes);
            offer::<RepairResponse>("repair-response", &bytes);
            offer::<Transaction>("transaction", &bytes);
            kernel::probe("c19_arbitrary_byte_strings");
        }
    }
    kernel::fingerprint(&format!("{what}:{sizes:?}"));
    WorldOutcome { nontrivial: true, sample: json!({"kind": what, "encoded_sizes": sizes}), virt_ms: 0 }
}

/// Returns the uncompressed encoding of `sig + k * r * P` (`P` = the curve point with x = 4, `r` = the
/// order of G1): a point on the curve that is not in the prime-order subgroup.
fn add_cofactor_point(sig_bytes: &[u8], k: u8) -> Option<[u8; 96]> {
    use blst::{BLST_ERROR, blst_p1, blst_p1_add_or_double, blst_p1_affine, blst_p1_deserialize, blst_p1_from_affine, blst_p1_in_g1, blst_p1_is_inf, blst_p1_mult, blst_p1_serialize, blst_p1_uncompress};
    const R_BE: [u8; 32] = [
        0x73, 0xed, 0xa7, 0x53, 0x29, 0x9d, 0x7d, 0x48, 0x33, 0x39, 0xd8, 0x08, 0x09, 0xa1, 0xd8, 0x05, 0x53, 0xbd, 0xa4, 0x02, 0xff, 0xfe, 0x5b, 0xfe, 0xff, 0xff, 0xff, 0xff, 0x00, 0x00,
        0x00, 0x01,
    ];
    if sig_bytes.len() != 96 {
        return None;
    }
    let mut compressed = [0u8; 48];
    compressed[0] = 0x80;
    compressed[47] = 4;
    let mut out = [0u8; 96];
    // SAFETY: plain FFI calls on properly sized, initialised buffers (same calls as blst's own API makes).
    unsafe {
        let mut p_aff = blst_p1_affine::default();
        if blst_p1_uncompress(&mut p_aff, compressed.as_ptr()) != BLST_ERROR::BLST_SUCCESS {
            return None;
        }
        let mut p = blst_p1::default();
        blst_p1_from_affine(&mut p, &p_aff);
        let mut r_le = R_BE;
        r_le.reverse();
        let mut t = blst_p1::default();
        blst_p1_mult(&mut t, &p, r_le.as_ptr(), 255);
        let mut kt = blst_p1::default();
        blst_p1_mult(&mut kt, &t, [k].as_ptr(), 8);
        if blst_p1_is_inf(&kt) || blst_p1_in_g1(&kt) {
            return None;
        }
        let mut sig_aff = blst_p1_affine::default();
        if blst_p1_deserialize(&mut sig_aff, sig_bytes.as_ptr()) != BLST_ERROR::BLST_SUCCESS {
            return None;
        }
        let mut sig = blst_p1::default();
        blst_p1_from_affine(&mut sig, &sig_aff);
        let mut sum = blst_p1::default();
        blst_p1_add_or_double(&mut sum, &sig, &kt);
        if blst_p1_in_g1(&sum) {
            return None;
        }
        blst_p1_serialize(out.as_mut_ptr(), &sum);
    }
    Some(out)
}
