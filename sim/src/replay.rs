//! Replay files, choice-sequence minimisation, fresh-process verification, known findings.

use std::collections::BTreeMap;
use std::time::Instant;

use serde_json::{Value, json};

use crate::kernel::Decisions;
use crate::props::Tier;
use crate::{RunResult, execute};

pub fn verif_root() -> String {
    std::env::var("AGSIM_ROOT").unwrap_or_else(|_| "/verif".to_string())
}

pub struct KnownFinding {
    pub property: String,
    pub class_prefix: String,
    pub what: String,
}

/// Known findings are read from the committed file; the check never writes to it.
pub fn load_known_findings() -> Vec<KnownFinding> {
    let path = format!("{}/known_findings.json", verif_root());
    let Ok(s) = std::fs::read_to_string(&path) else { return vec![] };
    let Ok(v) = serde_json::from_str::<Value>(&s) else {
        eprintln!("HARNESS ERROR: {path} is not valid JSON");
        std::process::exit(2);
    };
    let mut out = Vec::new();
    if let Some(arr) = v.get("known").and_then(Value::as_array) {
        for k in arr {
            out.push(KnownFinding {
                property: k["property"].as_str().unwrap_or("").to_string(),
                class_prefix: k["class_prefix"].as_str().unwrap_or("\u{0}").to_string(),
                what: k["what"].as_str().unwrap_or("").to_string(),
            });
        }
    }
    out
}

fn same_class(r: &RunResult, prop: &str, class: &str) -> bool {
    r.violations.iter().any(|v| v.property == prop && v.class == class)
}

fn run_with(prop: &str, variant: usize, tier: Tier, seed: u64, dec: &BTreeMap<String, Vec<u32>>) -> RunResult {
    execute(prop, variant, tier, Decisions::replay(seed, dec.clone()), false)
}

fn nonzero(dec: &BTreeMap<String, Vec<u32>>) -> usize {
    dec.values().map(|v| v.iter().filter(|x| **x != 0).count()).sum()
}

fn trim(dec: &mut BTreeMap<String, Vec<u32>>) {
    for v in dec.values_mut() {
        while v.last() == Some(&0) {
            v.pop();
        }
    }
    dec.retain(|_, v| !v.is_empty());
}

/// Minimises the failing run's decision log while the same violation class persists, writes the
/// replay file, and verifies it in a fresh process. Returns the path of the replay file.
pub fn minimise_and_write(
    prop: &str,
    tier: Tier,
    class: &str,
    r: &RunResult,
    t_start: Instant,
    budget_s: u64,
) -> Result<String, String> {
    let seed = r.seed;
    let variant = r.variant;
    let mut dec = r.decisions.clone();
    if dec.is_empty() {
        return Err("decision log missing".into());
    }
    let original_total: usize = dec.values().map(Vec::len).sum();
    let original_nonzero = nonzero(&dec);
    // 0. the recorded log must reproduce in-process
    let base = run_with(prop, variant, tier, seed, &dec);
    if !same_class(&base, prop, class) {
        return Err(format!("recorded decision log does not reproduce class {class} (got {:?})", base.violations.iter().map(|v| v.class.clone()).collect::<Vec<_>>()));
    }
    if base.hash != r.hash {
        return Err(format!("replay of the recorded log diverged: hash {} != {}", base.hash, r.hash));
    }
    // time budget for minimisation: a slice of the check's budget, at least 20 s
    let min_budget = (budget_s / 3).clamp(20, 600);
    let deadline = Instant::now() + std::time::Duration::from_secs(min_budget);
    let _ = t_start;
    let mut steps = 0u32;

    // 1. whole streams to the benign default (config last)
    let mut names: Vec<String> = dec.keys().cloned().collect();
    names.sort_by_key(|n| (n == "config", n.clone()));
    for name in &names {
        if Instant::now() > deadline {
            break;
        }
        if dec.get(name).is_none_or(|v| v.iter().all(|x| *x == 0)) {
            continue;
        }
        let mut cand = dec.clone();
        cand.insert(name.clone(), vec![]);
        steps += 1;
        if same_class(&run_with(prop, variant, tier, seed, &cand), prop, class) {
            dec = cand;
        }
    }
    // 2. ddmin per stream: zero chunks of decreasing size
    for name in &names {
        let len = dec.get(name).map_or(0, Vec::len);
        if len == 0 {
            continue;
        }
        let mut chunk = len.div_ceil(2);
        while chunk >= 1 && Instant::now() < deadline {
            let mut start = 0;
            let mut progressed = false;
            while start < len && Instant::now() < deadline {
                let end = (start + chunk).min(len);
                let cur = dec.get(name).expect("stream");
                if cur[start..end].iter().all(|x| *x == 0) {
                    start = end;
                    continue;
                }
                let mut cand = dec.clone();
                for x in &mut cand.get_mut(name).expect("stream")[start..end] {
                    *x = 0;
                }
                steps += 1;
                if same_class(&run_with(prop, variant, tier, seed, &cand), prop, class) {
                    dec = cand;
                    progressed = true;
                }
                start = end;
            }
            if chunk == 1 {
                break;
            }
            let _ = progressed;
            chunk = chunk.div_ceil(2);
            // bound work on very long streams: stop refining below 1/64 of the stream
            if chunk < len / 64 {
                break;
            }
        }
    }
    trim(&mut dec);
    // final in-process run of the minimised log (records its hash and trace)
    let fin = execute(prop, variant, tier, Decisions::replay(seed, dec.clone()), true);
    if !same_class(&fin, prop, class) {
        return Err("minimised log lost the violation".into());
    }
    let v = fin.violations.iter().find(|v| v.property == prop && v.class == class).expect("class");
    let trace_tail: Vec<String> = fin.trace.as_ref().map(|t| {
        let cut = t.iter().position(|l| l.contains("!!! VIOLATION")).map_or(t.len(), |p| p + 1);
        t[cut.saturating_sub(60)..cut].to_vec()
    }).unwrap_or_default();
    let head = repo_head();
    let file = json!({
        "format": "agsim-replay-1",
        "property": prop,
        "variant": variant,
        "variant_name": fin.variant_name,
        "tier": if tier == Tier::Quick { "quick" } else { "thorough" },
        "seed": seed,
        "class": class,
        "detail": v.detail,
        "at_virtual_ms": v.virt_ms,
        "hash": fin.hash,
        "decisions": dec,
        "minimisation": {
            "decisions_recorded": original_total,
            "nonzero_before": original_nonzero,
            "nonzero_after": nonzero(&dec),
            "candidate_runs": steps,
        },
        "case": fin.sample,
        "faults_fired": fin.faults,
        "trace_tail": trace_tail,
        "repo_head": head,
    });
    let dir = format!("{}/replays", verif_root());
    let _ = std::fs::create_dir_all(&dir);
    let safe: String = class.chars().map(|c| if c.is_ascii_alphanumeric() { c } else { '_' }).take(48).collect();
    let path = format!("{dir}/{prop}-{seed}-{safe}.json");
    std::fs::write(&path, serde_json::to_string_pretty(&file).expect("json")).map_err(|e| format!("write {path}: {e}"))?;

    // 3. fresh-process verification
    let exe = std::env::current_exe().map_err(|e| e.to_string())?;
    let out = std::process::Command::new(exe).arg("replay").arg(&path).output().map_err(|e| e.to_string())?;
    let stdout = String::from_utf8_lossy(&out.stdout);
    if out.status.code() != Some(1) || !stdout.contains(&format!("VIOLATION property={prop}")) {
        return Err(format!("fresh-process replay of {path} did not reproduce (exit {:?}): {}", out.status.code(), stdout.lines().last().unwrap_or("")));
    }
    Ok(path)
}

fn repo_head() -> String {
    let head = std::process::Command::new("git").args(["-C", "/repo", "rev-parse", "HEAD"]).output().ok().map(|o| String::from_utf8_lossy(&o.stdout).trim().to_string()).unwrap_or_default();
    let dirty = std::process::Command::new("git").args(["-C", "/repo", "status", "--porcelain"]).output().ok().map(|o| !o.stdout.is_empty()).unwrap_or(false);
    format!("{head}{}", if dirty { "+dirty" } else { "" })
}

pub fn cmd_replay(args: &[String]) -> i32 {
    let Some(path) = args.first() else {
        eprintln!("usage: agsim replay <file> [--trace]");
        return 2;
    };
    let trace = args.iter().any(|a| a == "--trace");
    let Ok(s) = std::fs::read_to_string(path) else {
        eprintln!("HARNESS ERROR: cannot read {path}");
        return 2;
    };
    let Ok(v) = serde_json::from_str::<Value>(&s) else {
        eprintln!("HARNESS ERROR: {path} is not JSON");
        return 2;
    };
    let prop = v["property"].as_str().unwrap_or("").to_string();
    let variant = v["variant"].as_u64().unwrap_or(0) as usize;
    let tier = if v["tier"].as_str() == Some("thorough") { Tier::Thorough } else { Tier::Quick };
    let seed = v["seed"].as_u64().unwrap_or(0);
    let class = v["class"].as_str().unwrap_or("").to_string();
    let mut dec: BTreeMap<String, Vec<u32>> = BTreeMap::new();
    if let Some(o) = v["decisions"].as_object() {
        for (k, a) in o {
            dec.insert(k.clone(), a.as_array().map(|a| a.iter().map(|x| x.as_u64().unwrap_or(0) as u32).collect()).unwrap_or_default());
        }
    }
    let r = execute(&prop, variant, tier, Decisions::replay(seed, dec), trace);
    if let Some(t) = &r.trace {
        for l in t {
            println!("{l}");
        }
    }
    let recorded_hash = v["hash"].as_str().unwrap_or("");
    println!("replayed property={prop} variant={} seed={seed} hash={} (recorded {recorded_hash}) events={}", r.variant_name, r.hash, r.events);
    for e in &r.harness_errors {
        eprintln!("HARNESS ERROR: {e}");
    }
    if let Some(viol) = r.violations.iter().find(|x| x.property == prop && x.class == class) {
        println!("  class={class} :: {}", viol.detail);
        if r.hash != recorded_hash {
            println!("  note: event-log hash differs from the recorded one (code changed since the file was written?)");
        }
        println!("VIOLATION property={prop} replay={path}");
        1
    } else {
        println!("not reproduced: class {class} did not occur (violations seen: {:?})", r.violations.iter().map(|v| format!("{}:{}", v.property, v.class)).collect::<Vec<_>>());
        0
    }
}
