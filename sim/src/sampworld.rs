//! W6 — committee samplers under concurrent callers (C17).
//!
//! The samplers are `Sync` and are shared by reference between caller threads (rayon workers in the
//! crate's simulations binary, disseminator tasks of a node). One of them
//! (`DecayingAcceptanceSampler`) keeps rejection counters behind a lock, so what a caller gets can
//! depend on how the callers interleave. Here the "nodes" are caller threads: real OS threads that
//! are parked at every scheduling point (hook H7, ahead of each lock acquisition, plus the start
//! and end of every operation) and released one at a time by a scheduler that draws from the
//! `sched` decision stream — one seed, one interleaving, exactly replayable.
//!
//! Oracle: every committee must be what the sequential reference returns for the same validator
//! set and the same random source (a fresh, private instance of the same strategy driven alone),
//! must have exactly the configured size, only members of the set, never a zero-stake validator,
//! at least floor(f*k) seats for a validator with stake fraction f under the Fait-Accompli
//! samplers, and at most ceil(max_samples) seats per validator under decaying acceptance.

use std::collections::BTreeMap;
use std::sync::{Arc, Condvar, Mutex};
use std::time::Duration;

use alpenglow::ValidatorInfo;
use alpenglow::disseminator::rotor::sampling_strategy::{
    DecayingAcceptanceSampler, FaitAccompli1Sampler, FaitAccompli2Sampler, IidQuorumSampler, PartitionSampler, QuorumSamplingStrategy,
    SamplingStrategy, StakeWeightedSampler, TurbineSampler, UniformSampler,
};
use rand::prelude::*;
use serde_json::json;

use crate::keys;
use crate::kernel;
use crate::props::WorldOutcome;

const G: &str = "gen";
const S: &str = "sched";

/// All shipped strategies behind one type, so that caller threads can share one instance.
enum AnySampler {
    Stake(IidQuorumSampler<StakeWeightedSampler>),
    Uniform(IidQuorumSampler<UniformSampler>),
    Turbine(IidQuorumSampler<TurbineSampler>),
    Decaying(DecayingAcceptanceSampler),
    Partition(PartitionSampler),
    Fa1Partition(FaitAccompli1Sampler<PartitionSampler>),
    Fa1Stake(FaitAccompli1Sampler<IidQuorumSampler<StakeWeightedSampler>>),
    Fa2(FaitAccompli2Sampler),
}

impl AnySampler {
    fn quorum_size(&self) -> usize {
        match self {
            Self::Stake(s) => s.quorum_size(),
            Self::Uniform(s) => s.quorum_size(),
            Self::Turbine(s) => s.quorum_size(),
            Self::Decaying(s) => s.quorum_size(),
            Self::Partition(s) => s.quorum_size(),
            Self::Fa1Partition(s) => s.quorum_size(),
            Self::Fa1Stake(s) => s.quorum_size(),
            Self::Fa2(s) => s.quorum_size(),
        }
    }
    fn sample_quorum(&self, rng: &mut StdRng) -> Vec<u64> {
        let v = match self {
            Self::Stake(s) => s.sample_quorum(rng),
            Self::Uniform(s) => s.sample_quorum(rng),
            Self::Turbine(s) => s.sample_quorum(rng),
            Self::Decaying(s) => s.sample_quorum(rng),
            Self::Partition(s) => s.sample_quorum(rng),
            Self::Fa1Partition(s) => s.sample_quorum(rng),
            Self::Fa1Stake(s) => s.sample_quorum(rng),
            Self::Fa2(s) => s.sample_quorum(rng),
        };
        v.into_iter().map(|i| i.inner()).collect()
    }
}

#[derive(Clone, Copy, Debug, PartialEq)]
enum Kind {
    Stake,
    Uniform,
    Turbine,
    Decaying,
    Partition,
    Fa1Partition,
    Fa1Stake,
    Fa2,
}

fn construct(kind: Kind, validators: &[ValidatorInfo], k: usize, max_samples: f64, fanout: usize) -> AnySampler {
    let v = validators.to_vec();
    match kind {
        Kind::Stake => AnySampler::Stake(StakeWeightedSampler::new(v).into_quorum_strategy(k)),
        Kind::Uniform => AnySampler::Uniform(UniformSampler::new(v).into_quorum_strategy(k)),
        Kind::Turbine => AnySampler::Turbine(TurbineSampler::new_with_fanout(v, fanout).into_quorum_strategy(k)),
        Kind::Decaying => AnySampler::Decaying(DecayingAcceptanceSampler::new(v, max_samples, k)),
        Kind::Partition => AnySampler::Partition(PartitionSampler::new(v, k)),
        Kind::Fa1Partition => AnySampler::Fa1Partition(FaitAccompli1Sampler::new_with_partition_fallback(v, k as u64)),
        Kind::Fa1Stake => AnySampler::Fa1Stake(FaitAccompli1Sampler::new_with_stake_weighted_fallback(v, k as u64)),
        Kind::Fa2 => AnySampler::Fa2(FaitAccompli2Sampler::new(v, k as u64)),
    }
}

fn slug(s: &str) -> String {
    let mut out = String::new();
    for c in s.chars().take(48) {
        out.push(if c.is_ascii_alphanumeric() { c.to_ascii_lowercase() } else { '_' });
    }
    out
}

// ---------------------------------------------------------------------------------------------
// the thread scheduler

struct SchedState {
    /// which caller thread may run now (`None`: the scheduler decides next)
    turn: Option<usize>,
    /// where each caller thread is parked
    parked_at: Vec<Option<&'static str>>,
    done: Vec<bool>,
}

struct Sched {
    m: Mutex<SchedState>,
    cv: Condvar,
}

impl Sched {
    /// Called by caller thread `me`: hands control back and waits to be chosen again.
    fn yield_at(&self, me: usize, site: &'static str) {
        let mut st = self.m.lock().unwrap();
        st.parked_at[me] = Some(site);
        st.turn = None;
        self.cv.notify_all();
        while st.turn != Some(me) {
            st = self.cv.wait(st).unwrap();
        }
        st.parked_at[me] = None;
    }
    fn finish(&self, me: usize) {
        let mut st = self.m.lock().unwrap();
        st.done[me] = true;
        st.turn = None;
        self.cv.notify_all();
    }
}

struct OpResult {
    committee: Option<Vec<u64>>,
    panic: Option<(String, String, bool)>,
}

pub fn c17_run(max_n: usize) -> WorldOutcome {
    // ---- configuration ----
    let n = match kernel::choose(G, 5) {
        0 => 4,
        1 => 1 + kernel::choose(G, 3) as usize,
        _ => 1 + kernel::choose(G, max_n as u64) as usize,
    };
    let (mut stakes, stake_kind) = keys::draw_stakes(n, G);
    let kind = [Kind::Decaying, Kind::Stake, Kind::Fa1Stake, Kind::Fa1Partition, Kind::Fa2, Kind::Partition, Kind::Turbine, Kind::Uniform, Kind::Decaying, Kind::Decaying]
        [kernel::choose(G, 10) as usize];
    // stakes straddling 1/k boundaries: one validator holding exactly j/k of the total
    let k = match kernel::choose(G, 6) {
        0 => 4,
        1 => 1 + kernel::choose(G, 8) as usize,
        2 => 64,
        3 => n.max(1),
        4 => 16,
        _ => 1 + kernel::choose(G, 40) as usize,
    };
    let mut k = k;
    if n >= 2 && kernel::choose(G, 4) == 1 {
        // validator 0 holds exactly j/k of the total: j*u units, the others share (k-j)*u units
        k = 2 + kernel::choose(G, 63) as usize;
        let j = 1 + kernel::choose(G, k as u64 - 1);
        let mut u = 1 + kernel::choose(G, 5);
        while (k as u64 - j) * u < (n as u64 - 1) {
            u += 1;
        }
        let mut left = (k as u64 - j) * u - (n as u64 - 1);
        for s in stakes.iter_mut().skip(1) {
            *s = 1;
        }
        for i in 1..n {
            let take = if i == n - 1 { left } else { kernel::choose(G, left + 1) };
            stakes[i] += take;
            left -= take;
        }
        stakes[0] = j * u;
        kernel::probe("stake_exactly_on_seat_boundary");
    }
    // stakes at the scale of real deployments (lamports): the same proportions, 1e9 / 1e16 times larger
    let scale = [1u64, 1, 1_000_000_000, 10_000_000_000_000_000][kernel::choose(G, 4) as usize];
    let sum: u128 = stakes.iter().map(|s| *s as u128).sum();
    if scale > 1 && sum * (scale as u128) < (u64::MAX / 2) as u128 {
        for s in stakes.iter_mut() {
            *s *= scale;
        }
        kernel::probe("stakes_at_lamport_scale");
    }
    // zero-stake validators only where the strategies document support for them
    let mut zero: Vec<usize> = Vec::new();
    if matches!(kind, Kind::Stake | Kind::Decaying) && n >= 3 && kernel::choose(G, 4) == 1 {
        let z = 1 + kernel::choose(G, (n - 1) as u64) as usize;
        stakes[z] = 0;
        zero.push(z);
        kernel::probe("zero_stake_validator_present");
    }
    // debugging aid: AGSIM_C17_FORCE="Fa1Stake;22;15,1,1,1,1,1,1,1" pins strategy, k and stakes
    let (kind, k, stakes, n) = match std::env::var("AGSIM_C17_FORCE") {
        Ok(f) => {
            let parts: Vec<&str> = f.split(';').collect();
            let kind = match parts[0] {
                "Fa1Stake" => Kind::Fa1Stake,
                "Fa1Partition" => Kind::Fa1Partition,
                "Fa2" => Kind::Fa2,
                "Partition" => Kind::Partition,
                "Turbine" => Kind::Turbine,
                "Decaying" => Kind::Decaying,
                _ => Kind::Stake,
            };
            let st: Vec<u64> = parts[2].split(',').map(|x| x.parse().expect("stake")).collect();
            let n = st.len();
            zero.clear();
            (kind, parts[1].parse().expect("k"), st, n)
        }
        Err(_) => (kind, k, stakes, n),
    };
    let max_samples = [1.0f64, 1.5, 2.0, 2.5, 3.0][kernel::choose(G, 5) as usize];
    let cap = max_samples.ceil() as usize;
    let fanout = [200usize, 1, 2, 3][kernel::choose(G, 4) as usize];
    let positive = stakes.iter().filter(|s| **s > 0).count();
    let mut k = k;
    if kind == Kind::Decaying {
        // decaying acceptance cannot seat more than cap per validator
        k = k.min(positive * cap).max(1);
    }
    let threads = 1 + kernel::choose(S, 3) as usize;
    let ops_per_thread = 1 + kernel::choose(G, 3) as usize;
    let validators = keys::validator_infos(&stakes);
    let total: u128 = stakes.iter().map(|s| *s as u128).sum();
    kernel::event_nt(&format!(
        "c17 kind={kind:?} n={n} k={k} stakes={stake_kind} {stakes:?} max_samples={max_samples} fanout={fanout} threads={threads} ops={ops_per_thread}"
    ));

    if matches!(kind, Kind::Fa1Stake | Kind::Fa1Partition | Kind::Fa2)
        && stakes.iter().any(|s| ((*s as f64 / total as f64) * k as f64).floor() as u128 != *s as u128 * k as u128 / total)
    {
        // reach probe: a stake fraction whose seat count differs between exact and floating-point arithmetic
        kernel::probe("seat_count_differs_between_exact_and_float_arithmetic");
        if std::env::var("AGSIM_C17_DEBUG").is_ok() {
            kernel::violation("C17", format!("debug:{kind:?}"), format!("k={k} stakes={stakes:?}"));
        }
    }
    // ---- construction (must succeed for every validator set with positive stakes) ----
    let build = || std::panic::catch_unwind(std::panic::AssertUnwindSafe(|| construct(kind, &validators, k, max_samples, fanout)));
    let shared = match build() {
        Ok(s) => Arc::new(s),
        Err(_) => {
            let ps = kernel::take_panics();
            let p = ps.last();
            let in_repo = p.is_some_and(kernel::panic_in_repo);
            if in_repo {
                let p = p.expect("panic record");
                kernel::violation(
                    "C17",
                    format!("construct-panic:{kind:?}:{}", slug(&p.message)),
                    format!("{kind:?} cannot be constructed for n={n} stakes {stakes:?} k={k} (fanout {fanout}): {} @ {}", p.message, p.location),
                );
            } else {
                // not the code under test: let the harness-error path see it
                panic!("sampworld: construction panicked outside the repository: {:?}", p.map(|p| (&p.message, &p.location)));
            }
            return WorldOutcome { nontrivial: true, sample: json!({"kind": format!("{kind:?}"), "n": n, "k": k}), virt_ms: 0 };
        }
    };
    if shared.quorum_size() != k {
        kernel::violation("C17", format!("quorum-size:{kind:?}"), format!("{kind:?} built for k={k} reports quorum_size {}", shared.quorum_size()));
    }

    // ---- decaying acceptance: the documented stateful use before the callers start ----
    // sample_one is stateful until reset(); after reset() the sampler "is just as it was when it was
    // first created", so everything below must still hold
    if let AnySampler::Decaying(d) = shared.as_ref()
        && kernel::choose(G, 2) == 1
    {
        let draws = kernel::choose(G, 7) as usize;
        let mut rng = StdRng::seed_from_u64(1 + kernel::choose(G, 1 << 20));
        let r = std::panic::catch_unwind(std::panic::AssertUnwindSafe(|| {
            let mut count = vec![0usize; n];
            for _ in 0..draws.min(positive * cap) {
                let v = d.sample_one(&mut rng).inner() as usize;
                if v >= n || stakes[v] == 0 {
                    return Some(format!("sample_one returned validator {v} (n = {n}, stake {:?})", stakes.get(v)));
                }
                count[v] += 1;
                if count[v] > cap {
                    return Some(format!("sample_one seated validator {v} {} times without a reset, cap {cap}", count[v]));
                }
            }
            d.reset();
            None
        }));
        kernel::probe("decaying_stateful_prologue_then_reset");
        match r {
            Ok(None) => {}
            Ok(Some(what)) => kernel::violation("C17", "stateful-draws:Decaying".to_string(), what),
            Err(_) => {
                let ps = kernel::take_panics();
                let p = ps.last();
                kernel::violation(
                    "C17",
                    format!("sample-panic:Decaying:{}", slug(p.map_or("", |p| p.message.as_str()))),
                    format!("sample_one/reset panicked for n={n} stakes {stakes:?} k={k}: {:?}", p.map(|p| (&p.message, &p.location))),
                );
            }
        }
    }
    // ---- operations and their sequential reference ----
    let seeds: Vec<Vec<u64>> = (0..threads).map(|_| (0..ops_per_thread).map(|_| 1 + kernel::choose(G, 1 << 30)).collect()).collect();
    let reference = match build() {
        Ok(s) => s,
        Err(_) => {
            let _ = kernel::take_panics();
            kernel::violation("C17", format!("construct-not-repeatable:{kind:?}"), "second construction with identical arguments panicked".to_string());
            return WorldOutcome { nontrivial: true, sample: json!(null), virt_ms: 0 };
        }
    };
    let mut expected: Vec<Vec<Option<Vec<u64>>>> = Vec::new();
    for t in 0..threads {
        let mut row = Vec::new();
        for o in 0..ops_per_thread {
            let mut rng = StdRng::seed_from_u64(seeds[t][o]);
            match std::panic::catch_unwind(std::panic::AssertUnwindSafe(|| reference.sample_quorum(&mut rng))) {
                Ok(c) => row.push(Some(c)),
                Err(_) => {
                    let ps = kernel::take_panics();
                    let p = ps.last();
                    kernel::violation(
                        "C17",
                        format!("sample-panic:{kind:?}:{}", slug(p.map_or("", |p| p.message.as_str()))),
                        format!("sequential sample_quorum panicked for n={n} stakes {stakes:?} k={k}: {:?}", p.map(|p| (&p.message, &p.location))),
                    );
                    row.push(None);
                }
            }
        }
        expected.push(row);
    }
    if kernel::has_violation() {
        return WorldOutcome { nontrivial: true, sample: json!({"kind": format!("{kind:?}"), "n": n, "k": k}), virt_ms: 0 };
    }

    // ---- concurrent execution under the seeded scheduler ----
    let sched = Arc::new(Sched { m: Mutex::new(SchedState { turn: None, parked_at: vec![None; threads], done: vec![false; threads] }), cv: Condvar::new() });
    let results: Arc<Mutex<Vec<Vec<OpResult>>>> = Arc::new(Mutex::new((0..threads).map(|_| Vec::new()).collect()));
    let mut handles = Vec::new();
    for t in 0..threads {
        let sched = sched.clone();
        let shared = shared.clone();
        let results = results.clone();
        let my_seeds = seeds[t].clone();
        handles.push(std::thread::spawn(move || {
            kernel::worker_thread_enter();
            let hook_sched = sched.clone();
            alpenglow::verif::set_sched_hook(Some(Box::new(move |site| hook_sched.yield_at(t, site))));
            sched.yield_at(t, "start");
            for seed in my_seeds {
                let mut rng = StdRng::seed_from_u64(seed);
                let r = std::panic::catch_unwind(std::panic::AssertUnwindSafe(|| shared.sample_quorum(&mut rng)));
                let res = match r {
                    Ok(c) => OpResult { committee: Some(c), panic: None },
                    Err(_) => {
                        let ps = kernel::take_panics();
                        let p = ps.last().map(|p| (p.message.clone(), p.location.clone(), kernel::panic_in_repo(p))).unwrap_or_default();
                        OpResult { committee: None, panic: Some(p) }
                    }
                };
                results.lock().unwrap()[t].push(res);
                sched.yield_at(t, "op-done");
            }
            alpenglow::verif::set_sched_hook(None);
            sched.finish(t);
        }));
    }
    // the scheduler: whenever no caller holds the turn, pick the next one
    let mut switches = 0u64;
    let mut last: Option<usize> = None;
    let mut sites: BTreeMap<&'static str, u64> = BTreeMap::new();
    let mut hung = false;
    loop {
        let mut st = sched.m.lock().unwrap();
        let mut waited = 0;
        while st.turn.is_some() || (0..threads).any(|t| !st.done[t] && st.parked_at[t].is_none()) {
            let (g, to) = sched.cv.wait_timeout(st, Duration::from_secs(5)).unwrap();
            st = g;
            if to.timed_out() {
                waited += 1;
                if waited >= 36 {
                    hung = true;
                    break;
                }
            }
        }
        if hung {
            break;
        }
        let runnable: Vec<usize> = (0..threads).filter(|t| !st.done[*t]).collect();
        if runnable.is_empty() {
            break;
        }
        let pick = runnable[kernel::choose(S, runnable.len() as u64) as usize];
        let site = st.parked_at[pick].unwrap_or("?");
        *sites.entry(site).or_insert(0) += 1;
        if last.is_some_and(|l| l != pick) {
            switches += 1;
        }
        last = Some(pick);
        kernel::event(&format!("run t{pick} from {site}"));
        st.turn = Some(pick);
        sched.cv.notify_all();
    }
    if hung {
        // a caller thread neither parked nor finished for 3 minutes of wall time: the harness cannot continue
        panic!("sampworld: a caller thread did not reach a scheduling point within 3 minutes");
    }
    for h in handles {
        let _ = h.join();
    }
    if switches > 0 {
        kernel::fault("thread_interleaving");
        kernel::probe_n("context_switches_between_callers", switches);
    }

    // ---- oracles ----
    let results = results.lock().unwrap();
    let mut classes: Vec<String> = Vec::new();
    for t in 0..threads {
        for (o, r) in results[t].iter().enumerate() {
            let Some(c) = &r.committee else {
                let (msg, loc, in_repo) = r.panic.clone().unwrap_or_default();
                if in_repo {
                    kernel::violation(
                        "C17",
                        format!("concurrent-sample-panic:{kind:?}:{}", slug(&msg)),
                        format!("sample_quorum of caller {t} (op {o}) panicked under interleaving with {} other caller(s): {msg} @ {loc}; sequentially the same call returns a committee", threads - 1),
                    );
                } else {
                    panic!("sampworld: caller thread panicked outside the repository: {msg} @ {loc}");
                }
                continue;
            };
            check_committee(kind, c, n, k, &stakes, total, &zero, cap, &format!("caller {t} op {o}"));
            if let Some(Some(e)) = expected.get(t).and_then(|row| row.get(o))
                && e != c
            {
                kernel::violation(
                    "C17",
                    format!("not-a-function-of-inputs:{kind:?}"),
                    format!(
                        "{kind:?} n={n} k={k}: caller {t} op {o} (rng seed {}) got {c:?} while the same validator set and random source give {e:?} when no other caller shares the sampler ({} callers, {switches} context switches)",
                        seeds[t][o], threads
                    ),
                );
            }
        }
    }
    // the reference committees obey the same guarantees
    for (t, row) in expected.iter().enumerate() {
        for (o, e) in row.iter().enumerate() {
            if let Some(e) = e {
                check_committee(kind, e, n, k, &stakes, total, &zero, cap, &format!("sequential reference {t}/{o}"));
            }
        }
    }
    classes.push(format!("{kind:?}"));
    kernel::fingerprint(&format!("{kind:?} n={n} k={k} {stake_kind} t={threads} sw={switches} sites={sites:?}"));
    WorldOutcome {
        nontrivial: true,
        sample: json!({"kind": format!("{kind:?}"), "n": n, "k": k, "threads": threads, "ops_per_thread": ops_per_thread, "context_switches": switches, "stakes": stake_kind}),
        virt_ms: 0,
    }
}

#[allow(clippy::too_many_arguments)]
fn check_committee(kind: Kind, c: &[u64], n: usize, k: usize, stakes: &[u64], total: u128, zero: &[usize], cap: usize, who: &str) {
    if c.len() != k {
        kernel::violation("C17", format!("committee-size:{kind:?}"), format!("{who}: {kind:?} configured for {k} seats returned {} ({c:?})", c.len()));
    }
    let mut count = vec![0usize; n];
    for m in c {
        if *m as usize >= n {
            kernel::violation("C17", format!("member-out-of-range:{kind:?}"), format!("{who}: committee member {m} is not one of the {n} validators"));
            return;
        }
        count[*m as usize] += 1;
    }
    for z in zero {
        if count[*z] > 0 {
            kernel::violation("C17", format!("zero-stake-drawn:{kind:?}"), format!("{who}: validator {z} has zero stake but holds {} seat(s)", count[*z]));
        }
    }
    // a validator whose stake is zero is never drawn by the stake-respecting strategies
    if matches!(kind, Kind::Stake | Kind::Decaying | Kind::Fa1Stake | Kind::Fa1Partition | Kind::Fa2 | Kind::Partition) {
        for (i, s) in stakes.iter().enumerate() {
            if *s == 0 && count[i] > 0 {
                kernel::violation("C17", format!("zero-stake-drawn:{kind:?}"), format!("{who}: validator {i} has zero stake but holds {} seat(s)", count[i]));
            }
        }
    }
    if matches!(kind, Kind::Fa1Stake | Kind::Fa1Partition | Kind::Fa2) {
        for (i, s) in stakes.iter().enumerate() {
            let floor_seats = (*s as u128 * k as u128 / total) as usize;
            if count[i] < floor_seats {
                kernel::violation(
                    "C17",
                    format!("fewer-than-floor-seats:{kind:?}"),
                    format!("{who}: validator {i} holds stake {s} of {total} (floor(f*k) = {floor_seats} of {k} seats) but got {} ({c:?})", count[i]),
                );
            }
        }
    }
    if kind == Kind::Decaying {
        for (i, cnt) in count.iter().enumerate() {
            if *cnt > cap {
                kernel::violation("C17", "seat-cap-exceeded:Decaying".to_string(), format!("{who}: validator {i} holds {cnt} seats, cap is ceil(max_samples) = {cap} ({c:?})"));
            }
        }
    }
}
