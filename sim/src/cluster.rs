//! W1 `cluster`: N validators, some running the real `Alpenglow` node, the others operated by the
//! harness (Byzantine puppets), on `SimNet` under tokio's paused clock.

use std::time::Duration;

use alpenglow::all2all::TrivialAll2All;
use alpenglow::consensus::{ConsensusMessage, SharedPool};
use alpenglow::disseminator::rotor::{FaitAccompli1Sampler, IidQuorumSampler, StakeWeightedSampler};
use alpenglow::disseminator::{Rotor, TrivialDisseminator, Turbine};
use alpenglow::repair::{RepairRequest, RepairResponse};
use alpenglow::shredder::Shred;
use alpenglow::types::Slot;
use alpenglow::{Alpenglow, Disseminator, Transaction, ValidatorInfo};
use serde_json::{Value, json};
use tokio_util::sync::CancellationToken;

use crate::adv;
use crate::kernel;
use crate::keys;
use crate::net::{Iface, NetCfg, NetCore, SharedNet, SimNet, port_of, pump};
use crate::oracle::Observer;

#[derive(Clone, Copy, Debug, PartialEq, Eq)]
pub enum Role {
    /// real node, correct for the whole run (may be crashed by the fault schedule)
    Correct,
    /// harness-operated validator holding its real keys
    Byzantine,
    /// real node that is restarted with empty state during the run (it may then contradict its own
    /// earlier votes, which is why it is counted inside the Byzantine stake budget)
    Amnesiac,
}

#[derive(Clone, Copy, Debug, PartialEq, Eq)]
pub enum DissemKind {
    Trivial,
    Rotor,
    RotorFa1,
    Turbine(usize),
}

#[derive(Clone, Debug)]
pub enum FaultEvent {
    Partition { at_ms: u64, heal_ms: u64, group: Vec<u8> },
    /// `mid`: instead of crashing at `at_ms`, crash in the middle of the node's next broadcast of
    /// the given message class (0 = vote, 1 = certificate, 2 = shred) after that many sends of it.
    Crash { at_ms: u64, node: usize, mid: Option<(u8, u32)> },
    Stall { at_ms: u64, node: usize, ms: u64 },
    Restart { at_ms: u64, node: usize },
}

impl FaultEvent {
    fn at(&self) -> u64 {
        match self {
            Self::Partition { at_ms, .. } | Self::Crash { at_ms, .. } | Self::Stall { at_ms, .. } | Self::Restart { at_ms, .. } => *at_ms,
        }
    }
}

/// Bias knobs a property check passes in; everything else is drawn per run (swarm).
#[derive(Clone, Debug)]
pub struct Profile {
    pub property: &'static str,
    pub min_n: usize,
    pub max_n: usize,
    pub min_ms: u64,
    pub max_ms: u64,
    /// permille of runs with Byzantine validators
    pub byz_permille: u64,
    /// permille of runs with any network fault
    pub netfault_permille: u64,
    pub crash_permille: u64,
    pub partition_permille: u64,
    pub stall_permille: u64,
    /// liveness profile: draw a stabilisation time and evaluate the progress oracle
    pub liveness: bool,
    /// fault-free configuration (no relaxation at all)
    pub fault_free: bool,
    /// hostile inputs on all interfaces (C10)
    pub hostile: bool,
    /// forged consensus messages (C09)
    pub forger: bool,
    pub corrupt_permille: u64,
    /// fault-free, equal stakes, constant equal link latency: one voting round is deterministic
    pub lockstep: bool,
    /// partitions mostly cut off a single node for a few seconds while the rest keeps finalizing:
    /// the node falls behind (possibly while it is the leader) and catches up after the heal
    pub isolate_bias: bool,
    /// C16 in the cluster: fault-free, but links have unequal (constant) extra delays, so that a
    /// relay can receive the other relays' broadcasts before its own shred from the leader
    pub asym_delays: bool,
    /// C18 in the cluster: no Byzantine nodes or crashes, one long total partition (every node on its
    /// own) so that every node's standstill detection must fire, repeatedly, until the heal
    pub standstill: bool,
}

impl Profile {
    pub fn base(property: &'static str) -> Self {
        Self {
            property,
            min_n: 4,
            max_n: 7,
            min_ms: 4_000,
            max_ms: 12_000,
            byz_permille: 600,
            netfault_permille: 800,
            crash_permille: 300,
            partition_permille: 400,
            stall_permille: 200,
            liveness: false,
            fault_free: false,
            hostile: false,
            forger: false,
            corrupt_permille: 0,
            lockstep: false,
            isolate_bias: false,
            asym_delays: false,
            standstill: false,
        }
    }
}

#[derive(Clone, Debug)]
pub struct ClusterCfg {
    pub n: usize,
    pub stakes: Vec<u64>,
    pub stake_kind: &'static str,
    pub roles: Vec<Role>,
    pub dissem: DissemKind,
    pub net: NetCfg,
    pub duration_ms: u64,
    pub faults: Vec<FaultEvent>,
    pub tx_per_s: u64,
    pub byz: adv::ByzCfg,
    pub tokio_seed: u64,
}

impl ClusterCfg {
    pub fn to_json(&self) -> Value {
        json!({
            "n": self.n, "stakes": self.stakes, "stake_kind": self.stake_kind,
            "roles": self.roles.iter().map(|r| format!("{r:?}")).collect::<Vec<_>>(),
            "dissem": format!("{:?}", self.dissem),
            "net": { "base_ms": self.net.base_ms, "jitter_ms": self.net.jitter_ms, "loss_ppm": self.net.loss_ppm,
                     "dup_ppm": self.net.dup_ppm, "straggle_ppm": self.net.straggle_ppm, "straggle_max_ms": self.net.straggle_max_ms,
                     "corrupt_ppm": self.net.corrupt_ppm, "partition_hold": self.net.partition_hold,
                     "stabilise_at_ms": self.net.stabilise_at_ms, "post_delay_ms": self.net.post_delay_ms },
            "duration_ms": self.duration_ms,
            "faults": self.faults.iter().map(|f| format!("{f:?}")).collect::<Vec<_>>(),
            "tx_per_s": self.tx_per_s,
            "byz": format!("{:?}", self.byz),
        })
    }
}

const CFG: &str = "config";

fn permille(p: u64) -> bool {
    kernel::flip(CFG, p, 1000)
}

/// Draws one run's configuration from the `config` stream.
pub fn draw_cfg(p: &Profile) -> ClusterCfg {
    let n = p.min_n + kernel::choose(CFG, (p.max_n - p.min_n + 1) as u64) as usize;
    let (stakes, stake_kind) = if p.lockstep || p.fault_free && kernel::choose(CFG, 2) == 0 {
        (vec![1; n], "equal")
    } else {
        keys::draw_stakes(n, CFG)
    };
    let total: u64 = stakes.iter().sum();
    let duration_ms = p.min_ms + kernel::choose(CFG, (p.max_ms - p.min_ms) / 500 + 1) * 500;

    // Byzantine set: strictly less than 20 % of stake
    let mut roles = vec![Role::Correct; n];
    let mut byz_stake = 0u64;
    if !p.fault_free && permille(p.byz_permille) {
        // greedy "largest set that fits" from a random starting point, or a single validator
        let start = kernel::choose(CFG, n as u64) as usize;
        let many = kernel::choose(CFG, 2) == 1;
        for k in 0..n {
            let i = (start + k) % n;
            if (byz_stake + stakes[i]) * 5 < total {
                roles[i] = Role::Byzantine;
                byz_stake += stakes[i];
                if !many {
                    break;
                }
            }
        }
    }
    // a Byzantine-budgeted validator may instead be a real node that suffers amnesia restarts
    let mut amnesiacs: Vec<usize> = Vec::new();
    if !p.liveness {
        for i in 0..n {
            if roles[i] == Role::Byzantine && kernel::choose(CFG, 4) == 1 {
                roles[i] = Role::Amnesiac;
                amnesiacs.push(i);
            }
        }
    }
    let byz_nodes: Vec<usize> = (0..n).filter(|i| roles[*i] == Role::Byzantine).collect();

    let dissem = match kernel::choose(CFG, 6) {
        0 | 1 => DissemKind::Rotor,
        2 => DissemKind::Trivial,
        3 => DissemKind::Turbine(1 + kernel::choose(CFG, n as u64) as usize),
        4 => DissemKind::Turbine(200),
        _ => DissemKind::Rotor,
    };

    let mut net = NetCfg::benign(n);
    net.base_ms = 1 + kernel::choose(CFG, 40);
    net.jitter_ms = if p.lockstep { 0 } else { kernel::choose(CFG, 60) };
    let mut faults = Vec::new();
    if !p.fault_free {
        if permille(p.netfault_permille) {
            if permille(600) {
                net.loss_ppm = [5_000, 20_000, 80_000, 200_000, 300_000][kernel::choose(CFG, 5) as usize];
            }
            if permille(400) {
                net.dup_ppm = [10_000, 50_000, 100_000][kernel::choose(CFG, 3) as usize];
            }
            if permille(400) {
                net.straggle_ppm = [5_000, 30_000, 100_000][kernel::choose(CFG, 3) as usize];
                net.straggle_max_ms = [300, 1_000, 3_000][kernel::choose(CFG, 3) as usize];
            }
            if permille(300) {
                for a in 0..n {
                    for b in 0..n {
                        if a != b && kernel::choose(CFG, 4) == 0 {
                            net.link_extra_ms[a][b] = kernel::choose(CFG, 200);
                        }
                    }
                }
            }
        }
        if p.corrupt_permille > 0 && permille(p.corrupt_permille) {
            net.corrupt_ppm = [2_000, 20_000, 100_000][kernel::choose(CFG, 3) as usize];
        }
        net.partition_hold = kernel::choose(CFG, 2) == 1;
        let fault_window = if p.liveness { duration_ms / 2 } else { duration_ms };
        if permille(p.partition_permille) {
            let k = 1 + kernel::choose(CFG, 2);
            for _ in 0..k {
                let at_ms = kernel::choose(CFG, fault_window.max(1));
                // (long enough, with the isolation bias, for the lone node to miss its own leader window)
                let len = if p.isolate_bias { 4_000 + kernel::choose(CFG, 24) * 500 } else { 500 + kernel::choose(CFG, 16) * 500 };
                let groups = 2 + kernel::choose(CFG, 2) as u8;
                let group: Vec<u8> = if p.isolate_bias && kernel::choose(CFG, 4) != 0 {
                    let lone = kernel::choose(CFG, n as u64) as usize;
                    (0..n).map(|i| u8::from(i == lone)).collect()
                } else if kernel::choose(CFG, 2) == 0 {
                    (0..n).map(|_| kernel::choose(CFG, u64::from(groups)) as u8).collect()
                } else {
                    // split the correct nodes evenly, Byzantine nodes join group 0
                    let mut g = vec![0u8; n];
                    let mut k = 0u8;
                    for i in 0..n {
                        if roles[i] == Role::Correct {
                            g[i] = k % 2;
                            k += 1;
                        }
                    }
                    g
                };
                faults.push(FaultEvent::Partition { at_ms, heal_ms: at_ms + len, group });
            }
        }
        // crash set: any number of the non-Byzantine nodes for safety profiles;
        // for liveness profiles strictly less than a further 20 % of stake
        if permille(p.crash_permille) {
            let mut crashed_stake = 0u64;
            let max_crashes = if p.liveness { n } else { 1 + kernel::choose(CFG, n as u64) as usize };
            let start = kernel::choose(CFG, n as u64) as usize;
            let mut cnt = 0;
            for k in 0..n {
                let i = (start + k) % n;
                if roles[i] != Role::Correct || cnt >= max_crashes {
                    continue;
                }
                if p.liveness && (crashed_stake + stakes[i]) * 5 >= total {
                    continue;
                }
                if kernel::choose(CFG, 2) == 0 {
                    continue;
                }
                crashed_stake += stakes[i];
                cnt += 1;
                let at_ms = kernel::choose(CFG, fault_window.max(1));
                // some crashes land inside a broadcast: only the first few recipients get the message
                let mid = match kernel::choose(CFG, 3) {
                    1 => Some((kernel::choose(CFG, 3) as u8, kernel::choose(CFG, n as u64) as u32)),
                    _ => None,
                };
                faults.push(FaultEvent::Crash { at_ms, node: i, mid });
            }
        }
        for &i in &amnesiacs {
            let k = 1 + kernel::choose(CFG, 2);
            for _ in 0..k {
                faults.push(FaultEvent::Restart { at_ms: 500 + kernel::choose(CFG, fault_window.max(1)), node: i });
            }
        }
        if permille(p.stall_permille) {
            let k = 1 + kernel::choose(CFG, 3);
            for _ in 0..k {
                faults.push(FaultEvent::Stall {
                    at_ms: kernel::choose(CFG, fault_window.max(1)),
                    node: kernel::choose(CFG, n as u64) as usize,
                    ms: 200 + kernel::choose(CFG, 25) * 200,
                });
            }
        }
    }
    if p.liveness {
        let ts = if p.fault_free { 0 } else { kernel::choose(CFG, (duration_ms / 2 / 500).max(1)) * 500 };
        net.stabilise_at_ms = Some(ts);
        // post-stabilisation delays: constant-ish <= 100 ms, or per-message anything up to 150/200/250 ms (DELTA)
        net.post_delay_ms = if p.lockstep { 100 } else { [20, 30, 40, 50, 60, 70, 80, 90, 100, 150, 200, 250][kernel::choose(CFG, 12) as usize] };
        // all scheduled faults end by the stabilisation time
        for f in &mut faults {
            match f {
                FaultEvent::Partition { at_ms, heal_ms, .. } => {
                    *at_ms = (*at_ms).min(ts);
                    *heal_ms = (*heal_ms).min(ts);
                }
                FaultEvent::Crash { at_ms, .. } | FaultEvent::Restart { at_ms, .. } => *at_ms = (*at_ms).min(ts),
                FaultEvent::Stall { at_ms, ms, .. } => {
                    *at_ms = (*at_ms).min(ts);
                    *ms = (*ms).min(ts.saturating_sub(*at_ms));
                }
            }
        }
    }
    if p.asym_delays {
        for a in 0..n {
            for b in 0..n {
                if a != b && kernel::choose(CFG, 2) == 1 {
                    net.link_extra_ms[a][b] = kernel::choose(CFG, 8) * 25;
                }
            }
        }
    }
    let mut duration_ms = duration_ms;
    if p.standstill {
        // replace the drawn schedule: a quiet start, then everybody alone for 12-30 s, then the heal
        faults.clear();
        let at_ms = 2_000 + kernel::choose(CFG, 8) * 500;
        let len = 12_000 + kernel::choose(CFG, 37) * 500;
        let group: Vec<u8> = match kernel::choose(CFG, 3) {
            // everybody alone, or two sides that are both short of 60 %
            0 | 1 => (0..n).map(|i| i as u8).collect(),
            _ => (0..n).map(|i| (i % 2) as u8).collect(),
        };
        net.partition_hold = false;
        net.loss_ppm = 0;
        faults.push(FaultEvent::Partition { at_ms, heal_ms: at_ms + len, group });
        duration_ms = at_ms + len + 4_000;
    }
    faults.sort_by_key(FaultEvent::at);

    let tx_per_s = [0, 0, 20, 200, 1000][kernel::choose(CFG, 5) as usize];
    let byz = adv::draw_byz_cfg(p, &byz_nodes, n);
    let tokio_seed = kernel::choose(CFG, 1 << 30);

    ClusterCfg { n, stakes, stake_kind, roles, dissem, net, duration_ms, faults, tx_per_s, byz, tokio_seed }
}

pub struct NodeHandle {
    pub pool: SharedPool,
    pub cancel: CancellationToken,
    pub join: tokio::task::JoinHandle<()>,
}

type A2A = TrivialAll2All<SimNet<ConsensusMessage, ConsensusMessage>>;

fn spawn_with<D: Disseminator + Send + Sync + 'static>(
    i: usize,
    vals: &[ValidatorInfo],
    stakes: &[u64],
    net: &SharedNet,
    dis: D,
) -> NodeHandle {
    let kp = keys::keypair(i);
    let ei = keys::vepoch(i, stakes);
    let a2a: A2A = TrivialAll2All::new(vals.to_vec(), SimNet::new(net, port_of(i, Iface::A2A)));
    let rq = SimNet::<RepairRequest, RepairResponse>::new(net, port_of(i, Iface::RepairReq));
    let rp = SimNet::<RepairResponse, RepairRequest>::new(net, port_of(i, Iface::RepairResp));
    let tx = SimNet::<Transaction, Transaction>::new(net, port_of(i, Iface::Tx));
    let node = Alpenglow::new(kp.sk.clone(), kp.vsk.clone(), a2a, dis, rq, rp, ei, tx);
    let pool = node.get_pool();
    let cancel = node.get_cancel_token();
    let join = tokio::spawn(async move {
        let _ = node.run().await;
    });
    NodeHandle { pool, cancel, join }
}

/// Spawns the real node for validator `i`.
pub fn spawn_node(i: usize, vals: &[ValidatorInfo], stakes: &[u64], net: &SharedNet, dissem: DissemKind) -> NodeHandle {
    let ei = keys::vepoch(i, stakes);
    let dnet = SimNet::<Shred, Shred>::new(net, port_of(i, Iface::Dissem));
    match dissem {
        DissemKind::Trivial => spawn_with(i, vals, stakes, net, TrivialDisseminator::new(vals.to_vec(), dnet)),
        DissemKind::Rotor => {
            let d: Rotor<_, IidQuorumSampler<StakeWeightedSampler>> = Rotor::new(dnet, ei);
            spawn_with(i, vals, stakes, net, d)
        }
        DissemKind::RotorFa1 => {
            let d: Rotor<_, FaitAccompli1Sampler<_>> = Rotor::new_fa1(dnet, ei);
            spawn_with(i, vals, stakes, net, d)
        }
        DissemKind::Turbine(f) => spawn_with(i, vals, stakes, net, Turbine::new(dnet, ei).with_fanout(f)),
    }
}

/// Registers swallow-all endpoints for a harness-operated validator so that traffic addressed to
/// it is routable (and visible on the taps).
pub fn register_puppet(i: usize, net: &SharedNet) -> Vec<Box<dyn std::any::Any>> {
    let mut keep: Vec<Box<dyn std::any::Any>> = Vec::new();
    keep.push(Box::new(SimNet::<ConsensusMessage, ConsensusMessage>::new(net, port_of(i, Iface::A2A))));
    keep.push(Box::new(SimNet::<Shred, Shred>::new(net, port_of(i, Iface::Dissem))));
    keep.push(Box::new(SimNet::<RepairRequest, RepairResponse>::new(net, port_of(i, Iface::RepairReq))));
    keep.push(Box::new(SimNet::<RepairResponse, RepairRequest>::new(net, port_of(i, Iface::RepairResp))));
    keep.push(Box::new(SimNet::<Transaction, Transaction>::new(net, port_of(i, Iface::Tx))));
    keep
}

async fn fault_scheduler(
    net: SharedNet,
    faults: Vec<FaultEvent>,
    cancels: Vec<Option<CancellationToken>>,
    vals: Vec<ValidatorInfo>,
    stakes: Vec<u64>,
    dissem: DissemKind,
) {
    let mut cancels = cancels;
    kernel::set_task_name("fault-scheduler");
    // expand partitions into (time, action) pairs
    enum Act {
        Part(Vec<u8>),
        Heal,
        Crash(usize, Option<(u8, u32)>),
        Stall(usize, u64),
        Restart(usize),
    }
    let mut acts: Vec<(u64, u32, Act)> = Vec::new();
    for (k, f) in faults.into_iter().enumerate() {
        let k = k as u32;
        match f {
            FaultEvent::Partition { at_ms, heal_ms, group } => {
                acts.push((at_ms, k, Act::Part(group)));
                acts.push((heal_ms, k, Act::Heal));
            }
            FaultEvent::Crash { at_ms, node, mid } => acts.push((at_ms, k, Act::Crash(node, mid))),
            FaultEvent::Stall { at_ms, node, ms } => acts.push((at_ms, k, Act::Stall(node, ms))),
            FaultEvent::Restart { at_ms, node } => acts.push((at_ms, k, Act::Restart(node))),
        }
    }
    acts.sort_by_key(|a| (a.0, a.1));
    for (at, _, act) in acts {
        let now = kernel::now_ms();
        if at > now {
            tokio::time::sleep(Duration::from_millis(at - now)).await;
        }
        match act {
            Act::Part(g) => net.lock().unwrap().set_partition(g),
            Act::Heal => net.lock().unwrap().heal(),
            Act::Crash(i, None) => {
                net.lock().unwrap().crash(i);
                if let Some(c) = &cancels[i] {
                    c.cancel();
                }
            }
            Act::Crash(i, Some((class, after))) => {
                // armed: the transport crashes the node in the middle of its next broadcast of that
                // class; the node's tasks are cancelled as soon as that happened (or after 3 s without
                // such a broadcast, when it crashes anyway)
                net.lock().unwrap().arm_crash(i, class, after);
                let net2 = net.clone();
                let cancel = cancels[i].clone();
                tokio::spawn(async move {
                    for _ in 0..600 {
                        tokio::time::sleep(Duration::from_millis(5)).await;
                        if net2.lock().unwrap().crashed[i] {
                            break;
                        }
                    }
                    {
                        let mut c = net2.lock().unwrap();
                        if !c.crashed[i] {
                            c.crash(i);
                        }
                    }
                    if let Some(c) = cancel {
                        c.cancel();
                    }
                });
            }
            Act::Stall(i, ms) => {
                if ms > 0 {
                    net.lock().unwrap().stall(i, ms);
                }
            }
            Act::Restart(i) => {
                // amnesia: the old incarnation is cancelled, a fresh node with the same keys and
                // empty state takes over the validator's endpoints
                kernel::event(&format!("amnesia-restart n{i}"));
                kernel::fault("amnesia_restart");
                if let Some(c) = &cancels[i] {
                    c.cancel();
                }
                let h = spawn_node(i, &vals, &stakes, &net, dissem);
                cancels[i] = Some(h.cancel.clone());
            }
        }
    }
}

/// Client: sends transactions to the leaders of the current and next window.
async fn client(net: SharedNet, n: usize, tx_per_s: u64, pools: Vec<Option<SharedPool>>) {
    kernel::set_task_name("client");
    if tx_per_s == 0 {
        return;
    }
    let client_port = port_of(n + 1, Iface::Tx);
    let period = Duration::from_millis((1000 / tx_per_s).max(1));
    let per_tick = (tx_per_s / 1000).max(1);
    loop {
        tokio::time::sleep(period).await;
        let mut top = 0u64;
        for p in pools.iter().flatten() {
            top = top.max(p.read().await.finalized_slot().inner());
        }
        let w = (top + 1) / alpenglow::types::SLOTS_PER_WINDOW;
        for _ in 0..per_tick {
            let len = match kernel::choose("client", 4) {
                0 => 0,
                1 => alpenglow::MAX_TRANSACTION_SIZE,
                _ => kernel::choose("client", alpenglow::MAX_TRANSACTION_SIZE as u64 + 1) as usize,
            };
            let tx = Transaction(vec![0x5A; len]);
            let bytes = wincode::serialize(&tx).expect("serialize tx");
            for lw in [w, w + 1] {
                let leader = (lw % n as u64) as usize;
                net.lock().unwrap().inject(client_port, port_of(leader, Iface::Tx), bytes.clone(), Some(1));
            }
        }
    }
}

pub struct ClusterOutcome {
    pub cfg: ClusterCfg,
    pub final_slots: Vec<u64>,
    pub virt_ms: u64,
    pub nontrivial: bool,
    pub sample: Value,
}

/// Runs one cluster execution. Must be called inside a kernel run context.
pub fn run(profile: &Profile) -> ClusterOutcome {
    let cfg = draw_cfg(profile);
    let mut seed_bytes = [0u8; 8];
    seed_bytes.copy_from_slice(&cfg.tokio_seed.to_le_bytes());
    let rt = tokio::runtime::Builder::new_current_thread()
        .enable_time()
        .start_paused(true)
        .rng_seed(tokio::runtime::RngSeed::from_bytes(&seed_bytes))
        .build()
        .expect("runtime");
    let profile = profile.clone();
    let cfg2 = cfg.clone();
    let out = rt.block_on(async move { run_async(&profile, cfg2).await });
    // dropping the runtime cancels every task of the run
    drop(rt);
    crate::oracle::set_pump_hook(None);
    out
}

async fn run_async(profile: &Profile, cfg: ClusterCfg) -> ClusterOutcome {
    kernel::set_t0();
    kernel::set_task_name("main");
    kernel::event(&format!("cfg {}", cfg.to_json()));
    let n = cfg.n;
    let vals = keys::validator_infos(&cfg.stakes);
    let net = NetCore::new(n, cfg.net.clone());
    tokio::spawn(pump(net.clone()));

    let mut handles: Vec<Option<NodeHandle>> = Vec::new();
    let mut keep_alive = Vec::new();
    for i in 0..n {
        match cfg.roles[i] {
            Role::Correct | Role::Amnesiac => handles.push(Some(spawn_node(i, &vals, &cfg.stakes, &net, cfg.dissem))),
            Role::Byzantine => {
                keep_alive.push(register_puppet(i, &net));
                handles.push(None);
            }
        }
    }
    let pools: Vec<Option<SharedPool>> = handles.iter().map(|h| h.as_ref().map(|h| h.pool.clone())).collect();
    let cancels: Vec<Option<CancellationToken>> = handles.iter().map(|h| h.as_ref().map(|h| h.cancel.clone())).collect();

    let correct: Vec<bool> = cfg.roles.iter().map(|r| *r == Role::Correct).collect();
    let observer = std::rc::Rc::new(std::cell::RefCell::new(Observer::new(n, keys::epoch(&cfg.stakes), correct.clone(), net.clone())));
    {
        let obs = observer.clone();
        crate::oracle::set_pump_hook(Some(Box::new(move || {
            if let Ok(mut o) = obs.try_borrow_mut() {
                o.step();
            }
        })));
    }

    tokio::spawn(fault_scheduler(net.clone(), cfg.faults.clone(), cancels.clone(), vals.clone(), cfg.stakes.clone(), cfg.dissem));
    tokio::spawn(client(net.clone(), n, cfg.tx_per_s, pools.clone()));
    let local = tokio::task::LocalSet::new();
    let mut adv_state = adv::AdvShared::new(&cfg, net.clone());
    adv_state.observer = Some(observer.clone());
    let byz_nodes: Vec<usize> = (0..n).filter(|i| cfg.roles[*i] == Role::Byzantine).collect();

    let mut timeline: Vec<(u64, Vec<u64>)> = Vec::new();
    let step = 100u64;
    let crashed_at: Vec<Option<u64>> = (0..n)
        .map(|i| cfg.faults.iter().find_map(|f| match f { FaultEvent::Crash { at_ms, node, .. } if *node == i => Some(*at_ms), _ => None }))
        .collect();

    let duration = cfg.duration_ms;
    let cfg_for_adv = cfg.clone();
    let net_for_adv = net.clone();
    local
        .run_until(async {
            if !byz_nodes.is_empty() || profile.hostile || profile.forger {
                tokio::task::spawn_local(adv::run_adversary(adv_state, cfg_for_adv, net_for_adv, profile.clone()));
            }
            let mut t = 0;
            while t < duration {
                tokio::time::sleep(Duration::from_millis(step)).await;
                t += step;
                observer.borrow_mut().step();
                let mut fs = Vec::with_capacity(n);
                for p in &pools {
                    match p {
                        Some(p) => fs.push(p.read().await.finalized_slot().inner()),
                        None => fs.push(0),
                    }
                }
                timeline.push((t, fs));
                if kernel::capped() || kernel::has_violation() && t % 500 == 0 {
                    break;
                }
            }
        })
        .await;
    let virt_ms = kernel::now_ms();
    for c in cancels.iter().flatten() {
        c.cancel();
    }
    observer.borrow_mut().step();
    observer.borrow().check_single_chain();
    observer.borrow().check_vote_rules(&cfg.stakes);

    let final_slots = timeline.last().map(|t| t.1.clone()).unwrap_or_default();
    {
        let o = observer.borrow();
        crate::props::cluster_post(profile, &cfg, &o, &timeline, &crashed_at);
    }

    let o = observer.borrow();
    let fin_nodes = (0..n).filter(|i| correct[*i] && !o.fin_by_node[*i].is_empty()).count();
    let faults_fired = kernel::with(|c| c.faults.values().sum::<u64>());
    let qualifying = kernel::with(|c| c.probes.get("c02_qualifying_windows").copied().unwrap_or(0));
    let nontrivial = if profile.liveness {
        qualifying >= 1 && (faults_fired > 0 || profile.fault_free)
    } else {
        fin_nodes >= 2 && (faults_fired > 0 || profile.fault_free)
    };
    let sample = json!({
        "cfg": cfg.to_json(),
        "virt_ms": virt_ms,
        "final_finalized_slot_per_node": final_slots,
        "finalized_blocks": o.finalized.iter().take(12).map(|(s, (h, node, direct))| json!([s.inner(), crate::oracle::hx(h), node, direct])).collect::<Vec<_>>(),
        "skip_certified": o.skip_certified.keys().map(|s| s.inner()).take(12).collect::<Vec<_>>(),
    });
    let _ = Slot::genesis();
    let _ = keep_alive;
    ClusterOutcome { cfg, final_slots, virt_ms, nontrivial, sample }
}
