//! Cluster observer: consumes the finalization log (hook H5) and the wire taps of a run and
//! evaluates the history-based oracles of the cluster worlds incrementally.
//!
//! Only what the properties state is flagged (DESIGN §9): e.g. a notar-fallback certificate for a
//! sibling of a slow-finalized block is not an agreement violation.

use std::cell::RefCell;
use std::collections::{BTreeMap, BTreeSet, HashMap};

use alpenglow::consensus::{Cert, ConsensusMessage, EpochInfo, ValidatedCert, Vote};
use alpenglow::crypto::merkle::BlockHash;
use alpenglow::verif::{FinalizationKind, take_finalization_log};
use alpenglow::BlockId;
use alpenglow::types::Slot;

use crate::kernel;
use crate::net::{Iface, SharedNet};

thread_local! {
    static PUMP_HOOK: RefCell<Option<Box<dyn FnMut()>>> = const { RefCell::new(None) };
}

pub fn set_pump_hook(f: Option<Box<dyn FnMut()>>) {
    PUMP_HOOK.with(|h| *h.borrow_mut() = f);
}

pub fn on_pump() {
    PUMP_HOOK.with(|h| {
        if let Ok(mut h) = h.try_borrow_mut()
            && let Some(f) = h.as_mut()
        {
            f();
        }
    });
}

pub fn hx(h: &BlockHash) -> String {
    format!("{}", h.short_hex())
}

#[derive(Clone, Debug, PartialEq, Eq, PartialOrd, Ord)]
pub enum CertKind {
    Notar,
    NotarFallback,
    Skip,
    FastFinal,
    Final,
}

pub fn cert_kind(c: &Cert) -> CertKind {
    match c {
        Cert::Notar(_) => CertKind::Notar,
        Cert::NotarFallback(_) => CertKind::NotarFallback,
        Cert::Skip(_) => CertKind::Skip,
        Cert::FastFinal(_) => CertKind::FastFinal,
        Cert::Final(_) => CertKind::Final,
    }
}

pub fn vote_kind(v: &Vote) -> &'static str {
    match v {
        Vote::Notar(_) => "notar",
        Vote::NotarFallback(_) => "nf",
        Vote::Skip(_) => "skip",
        Vote::SkipFallback(_) => "sf",
        Vote::Final(_) => "final",
    }
}

/// A vote as seen on the wire, reduced to what the oracles need.
#[derive(Clone, Debug)]
pub struct SeenVote {
    pub at_ms: u64,
    pub seq: u64,
    pub kind: &'static str,
    pub slot: Slot,
    pub hash: Option<BlockHash>,
}

/// Slots from here on are outside any run (hostile inputs only).
pub const FAR_SLOT: u64 = 1 << 40;

#[derive(Clone, Debug)]
pub struct SeenCert {
    pub at_ms: u64,
    pub seq: u64,
    pub from: usize,
    pub kind: CertKind,
    pub slot: Slot,
    pub hash: Option<BlockHash>,
    pub valid: bool,
    pub signers: Vec<usize>,
}

pub struct Observer {
    pub n: usize,
    pub epoch: EpochInfo,
    /// nodes that run real, correct code for the whole run (crashed nodes stay "correct")
    pub correct: Vec<bool>,
    pub net: SharedNet,
    tap_cursor: usize,

    // ---- C01
    /// slot -> (hash, node that reported first, direct?)
    pub finalized: BTreeMap<Slot, (BlockHash, usize, bool)>,
    pub fin_by_node: Vec<BTreeMap<Slot, BlockHash>>,
    pub implicitly_skipped: BTreeMap<Slot, usize>,
    pub parents: BTreeMap<BlockId, BlockId>,
    pub skip_certified: BTreeMap<Slot, u64>,

    // ---- wire history
    cert_cache: HashMap<Vec<u8>, bool>,
    pub certs: Vec<SeenCert>,
    /// first time a valid certificate of (kind, slot, hash) appeared on the wire
    pub first_cert: BTreeMap<(CertKind, Slot, Option<BlockHash>), u64>,
    pub votes_by_node: Vec<Vec<SeenVote>>,
    /// per node: time a certificate (kind, slot, hash) was first *broadcast by* that node
    pub cert_at_node: Vec<BTreeMap<(CertKind, Slot, Option<BlockHash>), u64>>,
    /// time of first shred per (slot) sent by the slot's leader
    pub first_shred_ms: BTreeMap<Slot, u64>,
    /// every direct finalization (node, slot, ms)
    pub fin_times: Vec<BTreeMap<Slot, u64>>,
    pub check_cert_validity: bool,
}

impl Observer {
    pub fn new(n: usize, epoch: EpochInfo, correct: Vec<bool>, net: SharedNet) -> Self {
        Self {
            n,
            epoch,
            correct,
            net,
            tap_cursor: 0,
            finalized: BTreeMap::new(),
            fin_by_node: vec![BTreeMap::new(); n],
            implicitly_skipped: BTreeMap::new(),
            parents: BTreeMap::new(),
            skip_certified: BTreeMap::new(),
            cert_cache: HashMap::new(),
            certs: Vec::new(),
            first_cert: BTreeMap::new(),
            votes_by_node: vec![Vec::new(); n],
            cert_at_node: vec![BTreeMap::new(); n],
            first_shred_ms: BTreeMap::new(),
            fin_times: vec![BTreeMap::new(); n],
            check_cert_validity: true,
        }
    }

    /// Processes everything that happened since the last call.
    pub fn step(&mut self) {
        self.drain_fin_log();
        self.drain_taps();
    }

    fn note_finalized(&mut self, node: usize, slot: Slot, hash: &BlockHash, direct: bool) {
        let ms = kernel::now_ms();
        if !self.correct[node] {
            return;
        }
        kernel::fingerprint(&format!("F{node}:{}:{}", slot.inner(), hx(hash)));
        if direct {
            self.fin_times[node].entry(slot).or_insert(ms);
        }
        if let Some(prev) = self.fin_by_node[node].get(&slot)
            && prev != hash
        {
            kernel::violation(
                "C01",
                "agreement:same-node-two-blocks",
                format!("node {node} finalized both {} and {} in slot {slot}", hx(prev), hx(hash)),
            );
        }
        self.fin_by_node[node].insert(slot, hash.clone());
        match self.finalized.get(&slot) {
            Some((h, first, _)) if h != hash => {
                kernel::violation(
                    "C01",
                    "agreement:different-blocks",
                    format!(
                        "slot {slot}: node {first} finalized {} but node {node} finalized {}",
                        hx(h),
                        hx(hash)
                    ),
                );
            }
            Some(_) => {}
            None => {
                self.finalized.insert(slot, (hash.clone(), node, direct));
            }
        }
        if let Some(other) = self.implicitly_skipped.get(&slot) {
            kernel::violation(
                "C01",
                "agreement:finalized-and-implicitly-skipped",
                format!("slot {slot} finalized ({}) at node {node} but implicitly skipped at node {other}", hx(hash)),
            );
        }
        // Only *direct* finalization excludes a skip certificate: an ancestor that is finalized
        // through a descendant may legitimately sit in a slot that is both notar-fallback- and
        // skip-certified (fallback votes make both certificates reachable with <20% Byzantine).
        if direct && self.skip_certified.contains_key(&slot) {
            kernel::violation(
                "C01",
                "agreement:finalized-and-skip-certified",
                format!("slot {slot} finalized ({}) at node {node} and a valid skip certificate exists", hx(hash)),
            );
        }
    }

    fn drain_fin_log(&mut self) {
        for rec in take_finalization_log() {
            let node = rec.node.as_usize();
            match rec.kind {
                FinalizationKind::Finalized(slot, hash) => {
                    kernel::event(&format!("fin n{node} s{} {}", slot.inner(), hx(&hash)));
                    kernel::probe("finalized_direct");
                    self.note_finalized(node, slot, &hash, true);
                }
                FinalizationKind::ImplicitlyFinalized(slot, hash) => {
                    kernel::event(&format!("ifin n{node} s{} {}", slot.inner(), hx(&hash)));
                    kernel::probe("finalized_implicit");
                    self.note_finalized(node, slot, &hash, false);
                }
                FinalizationKind::ImplicitlySkipped(slot) => {
                    kernel::event(&format!("iskip n{node} s{}", slot.inner()));
                    kernel::probe("implicitly_skipped");
                    if !self.correct[node] {
                        continue;
                    }
                    kernel::fingerprint(&format!("S{node}:{}", slot.inner()));
                    if let Some((h, first, _)) = self.finalized.get(&slot) {
                        kernel::violation(
                            "C01",
                            "agreement:finalized-and-implicitly-skipped",
                            format!(
                                "slot {slot} implicitly skipped at node {node} but finalized ({}) at node {first}",
                                hx(h)
                            ),
                        );
                    }
                    self.implicitly_skipped.entry(slot).or_insert(node);
                }
                FinalizationKind::BlockRegistered(slot, hash, pslot, phash) => {
                    self.parents.entry((slot, hash)).or_insert((pslot, phash));
                }
            }
        }
    }

    /// All finalized blocks must lie on one chain (checked where parent links are known).
    pub fn check_single_chain(&self) {
        // walk down from the highest finalized block
        let Some((&top_slot, (top_hash, _, _))) = self.finalized.iter().next_back() else { return };
        let mut cur: BlockId = (top_slot, top_hash.clone());
        loop {
            let Some(parent) = self.parents.get(&cur) else { break };
            // every finalized slot strictly between parent and cur contradicts the chain
            for (s, (h, node, _)) in self.finalized.range(parent.0..cur.0) {
                if *s == parent.0 {
                    if *h != parent.1 {
                        kernel::violation(
                            "C01",
                            "chain:ancestor-mismatch",
                            format!(
                                "finalized block {} in slot {} (node {node}) is not the ancestor {} of finalized block in slot {}",
                                hx(h), s, hx(&parent.1), cur.0
                            ),
                        );
                    }
                } else {
                    kernel::violation(
                        "C01",
                        "chain:off-chain-finalized",
                        format!(
                            "slot {s} finalized ({}, node {node}) but lies strictly between finalized block in slot {} and its parent in slot {}",
                            hx(h), cur.0, parent.0
                        ),
                    );
                }
            }
            if parent.0.is_genesis() {
                break;
            }
            cur = parent.clone();
        }
    }

    fn validate_cert(&mut self, bytes: &[u8], cert: &Cert) -> bool {
        if let Some(v) = self.cert_cache.get(bytes) {
            return *v;
        }
        let ok = ValidatedCert::try_new(cert.clone(), &self.epoch).is_ok();
        self.cert_cache.insert(bytes.to_vec(), ok);
        ok
    }

    fn drain_taps(&mut self) {
        let recs: Vec<_> = {
            let c = self.net.lock().unwrap();
            let v = c.taps[self.tap_cursor..].to_vec();
            self.tap_cursor = c.taps.len();
            v
        };
        for rec in recs {
            match rec.from_iface {
                Iface::A2A => {
                    let Ok(msg) = alpenglow::network::deserialize::<ConsensusMessage>(&rec.bytes) else { continue };
                    let from = rec.from_node;
                    // Votes and certificates for absurdly distant slots (hostile leaders sign blocks up
                    // to u64::MAX, and correct nodes then legitimately vote skip there) are not part of
                    // the run's history: no oracle below is about them, and slot arithmetic on them
                    // would overflow.
                    let msg_slot = match &msg {
                        ConsensusMessage::Vote(v) => v.slot().inner(),
                        ConsensusMessage::Cert(c) => c.slot().inner(),
                    };
                    if msg_slot >= FAR_SLOT {
                        kernel::probe("observer_ignored_message_for_distant_slot");
                        continue;
                    }
                    match msg {
                        ConsensusMessage::Vote(v) => {
                            if from < self.n {
                                let hash = match &v {
                                    Vote::Notar(x) => Some(x.block_hash().clone()),
                                    Vote::NotarFallback(x) => Some(x.block_hash().clone()),
                                    _ => None,
                                };
                                if self.correct[from] {
                                    kernel::fingerprint(&format!(
                                        "V{from}:{}:{}",
                                        vote_kind(&v),
                                        v.slot().inner()
                                    ));
                                    match vote_kind(&v) {
                                        "nf" => kernel::probe("votes_notar_fallback"),
                                        "sf" => kernel::probe("votes_skip_fallback"),
                                        "skip" => kernel::probe("votes_skip"),
                                        "final" => kernel::probe("votes_final"),
                                        _ => kernel::probe("votes_notar"),
                                    }
                                }
                                kernel::event(&format!("vote n{from} {} s{} {}", vote_kind(&v), v.slot().inner(), hash.as_ref().map(hx).unwrap_or_default()));
                                self.votes_by_node[from].push(SeenVote {
                                    at_ms: rec.at_ms,
                                    seq: rec.seq,
                                    kind: vote_kind(&v),
                                    slot: v.slot(),
                                    hash,
                                });
                            }
                        }
                        ConsensusMessage::Cert(c) => {
                            let valid = self.validate_cert(&rec.bytes, &c);
                            let kind = cert_kind(&c);
                            let slot = c.slot();
                            let hash = c.block_hash().cloned();
                            if from < self.n && self.correct[from] && !valid && self.check_cert_validity {
                                kernel::violation(
                                    "C03",
                                    format!("wire:invalid-cert-broadcast:{kind:?}"),
                                    format!(
                                        "correct node {from} broadcast a {kind:?} certificate for slot {slot} that other nodes reject (signers {:?}, declared stake {})",
                                        c.signers().map(|s| s.as_usize()).collect::<Vec<_>>(),
                                        c.stake().inner()
                                    ),
                                );
                            }
                            if valid {
                                let key = (kind.clone(), slot, hash.clone());
                                self.first_cert.entry(key.clone()).or_insert(rec.at_ms);
                                if from < self.n {
                                    self.cert_at_node[from].entry(key).or_insert(rec.at_ms);
                                }
                                match kind {
                                    CertKind::Skip => {
                                        kernel::probe("certs_skip");
                                        self.skip_certified.entry(slot).or_insert(rec.at_ms);
                                        let direct = (0..self.n).find(|i| self.fin_times[*i].contains_key(&slot));
                                        if let (Some((h, _, _)), Some(node)) = (self.finalized.get(&slot), direct) {
                                            kernel::violation(
                                                "C01",
                                                "agreement:finalized-and-skip-certified",
                                                format!(
                                                    "valid skip certificate for slot {slot} which node {node} finalized ({})",
                                                    hx(h)
                                                ),
                                            );
                                        }
                                    }
                                    CertKind::FastFinal => kernel::probe("certs_fast_final"),
                                    CertKind::Final => kernel::probe("certs_final"),
                                    CertKind::NotarFallback => kernel::probe("certs_notar_fallback"),
                                    CertKind::Notar => kernel::probe("certs_notar"),
                                }
                            }
                            kernel::event(&format!("cert n{from} {kind:?} s{} valid={valid}", slot.inner()));
                            self.certs.push(SeenCert {
                                at_ms: rec.at_ms,
                                seq: rec.seq,
                                from,
                                kind,
                                slot,
                                hash,
                                valid,
                                signers: c.signers().map(|s| s.as_usize()).collect(),
                            });
                        }
                    }
                }
                Iface::Dissem => {
                    // first shred of a slot sent by its leader (timeline for liveness conditioning)
                    if rec.bytes.len() > 24 {
                        // Shred layout: u32 variant tag, then header.slot as u64 LE
                        let slot = u64::from_le_bytes(rec.bytes[4..12].try_into().unwrap());
                        if slot >= FAR_SLOT {
                            continue;
                        }
                        let slot = Slot::new(slot);
                        let leader = self.epoch.leader(slot).id.as_usize();
                        if rec.from_node == leader {
                            self.first_shred_ms.entry(slot).or_insert(rec.at_ms);
                        }
                    }
                }
                _ => {}
            }
        }
    }

    /// C05 (cluster monitor): every correct node's own votes, in the order it broadcast them, obey
    /// the voting rules. Conditions that depend on what had reached the node are checked in their
    /// necessary form against everything that was on the wire by then (sound, not complete).
    pub fn check_vote_rules(&self, stakes: &[u64]) {
        use crate::model::{self, VK, ValVotes, Verdict};
        let total: u64 = stakes.iter().sum();
        let mut intern: BTreeMap<BlockHash, u64> = BTreeMap::new();
        fn tag_of(intern: &mut BTreeMap<BlockHash, u64>, h: &BlockHash) -> u64 {
            let n = intern.len() as u64 + 1;
            *intern.entry(h.clone()).or_insert(n)
        }
        // all votes on the wire in global order (for the stake-on-the-wire bounds)
        let mut all: Vec<(u64, usize, &SeenVote)> = Vec::new();
        for (v, vs) in self.votes_by_node.iter().enumerate() {
            for sv in vs {
                all.push((sv.seq, v, sv));
            }
        }
        all.sort_by_key(|x| x.0);
        for i in 0..self.n {
            if !self.correct[i] {
                continue;
            }
            let mut st: BTreeMap<Slot, ValVotes> = BTreeMap::new();
            for sv in &self.votes_by_node[i] {
                let kind = match sv.kind {
                    "notar" => VK::Notar,
                    "nf" => VK::NotarFallback,
                    "skip" => VK::Skip,
                    "sf" => VK::SkipFallback,
                    _ => VK::Final,
                };
                let tag = match sv.hash.as_ref() {
                    Some(h) => tag_of(&mut intern, h),
                    None => 0,
                };
                let s = st.entry(sv.slot).or_default();
                let slot = sv.slot;
                match model::expected_verdict(s, kind, tag) {
                    Verdict::Slashable(o) => {
                        kernel::violation(
                            "C05",
                            format!("own-votes-slashable:{kind:?}"),
                            format!("correct node {i} broadcast {kind:?} in slot {slot} after {s:?}: slashable combination {o:?}"),
                        );
                        continue;
                    }
                    Verdict::Duplicate => continue, // standstill recovery re-broadcasts own votes
                    Verdict::Ok => {}
                }
                match kind {
                    VK::Final => {
                        match s.notar {
                            None => kernel::violation("C05", "final-without-notar", format!("correct node {i} cast a finalize vote in slot {slot} without having notarized a block there")),
                            Some(t) => {
                                let h = intern.iter().find(|(_, v)| **v == t).map(|(h, _)| h.clone());
                                let has_cert = h.as_ref().is_some_and(|h| self.first_cert.contains_key(&(CertKind::Notar, slot, Some(h.clone()))));
                                if !has_cert {
                                    kernel::violation(
                                        "C05",
                                        "final-without-notar-cert",
                                        format!("correct node {i} cast a finalize vote in slot {slot} but no notarization certificate for the block it notarized ever existed"),
                                    );
                                }
                            }
                        }
                        kernel::probe("c05_final_votes_checked");
                    }
                    VK::SkipFallback => {
                        if s.notar.is_none() {
                            kernel::violation("C05", "skip-fallback-without-notar", format!("correct node {i} cast skip-fallback in slot {slot} without having notarized a block there"));
                        }
                        // necessary: skip + notar stake (all blocks but the top one) >= 40 %.
                        // Sound upper bound of what the node can have counted: every validator that sent
                        // any skip or notar vote for the slot counts once (a Byzantine validator's
                        // conflicting votes may have reached this node in any order), minus the largest
                        // notar stake that *correct* validators alone gave one block.
                        let mut voters: BTreeSet<usize> = BTreeSet::new();
                        let mut correct_notar: BTreeMap<BlockHash, BTreeSet<usize>> = BTreeMap::new();
                        for (seq, v, x) in &all {
                            if *seq > sv.seq || x.slot != slot {
                                continue;
                            }
                            if x.kind == "skip" || x.kind == "notar" {
                                voters.insert(*v);
                            }
                            if x.kind == "notar" && self.correct[*v] {
                                correct_notar.entry(x.hash.clone().unwrap()).or_default().insert(*v);
                            }
                        }
                        let voted: u64 = voters.iter().map(|v| stakes[*v]).sum();
                        let top: u64 = correct_notar.values().map(|s| s.iter().map(|v| stakes[*v]).sum::<u64>()).max().unwrap_or(0);
                        let bound = voted.saturating_sub(top);
                        if bound * 5 < total * 2 {
                            kernel::violation(
                                "C05",
                                "skip-fallback-before-safe-to-skip",
                                format!("correct node {i} cast skip-fallback in slot {slot} when at most {bound} of {total} stake (skip + non-top notar) can have been counted anywhere"),
                            );
                        }
                        kernel::probe("c05_skip_fallback_votes_checked");
                    }
                    VK::NotarFallback => {
                        if s.notar.is_none() && !s.skip {
                            kernel::violation("C05", "notar-fallback-without-initial-vote", format!("correct node {i} cast notar-fallback in slot {slot} before any initial vote there"));
                        }
                        // necessary: notar stake for that block on the wire >= 20 %
                        let h = sv.hash.clone().unwrap();
                        let mut notar = 0u64;
                        let mut seen: BTreeSet<usize> = BTreeSet::new();
                        for (seq, v, x) in &all {
                            if *seq <= sv.seq && x.slot == slot && x.kind == "notar" && x.hash.as_ref() == Some(&h) && seen.insert(*v) {
                                notar += stakes[*v];
                            }
                        }
                        if notar * 5 < total {
                            kernel::violation(
                                "C05",
                                "notar-fallback-before-safe-to-notar",
                                format!("correct node {i} cast notar-fallback for a block in slot {slot} that had only {notar} of {total} stake in notar votes anywhere"),
                            );
                        }
                        kernel::probe("c05_notar_fallback_votes_checked");
                    }
                    VK::Notar => {
                        let h = sv.hash.clone().unwrap();
                        if let Some((ps, ph)) = self.parents.get(&(slot, h.clone())) {
                            if slot.inner() % alpenglow::types::SLOTS_PER_WINDOW != 0 {
                                // not the first slot of a window: parent = the block it notarized in the preceding slot
                                let prev = Slot::new(slot.inner() - 1);
                                let ok = *ps == prev
                                    && (prev.is_genesis()
                                        || st.get(&prev).and_then(|p| p.notar).is_some_and(|t| intern.iter().any(|(hh, v)| *v == t && hh == ph)));
                                if !ok {
                                    kernel::violation(
                                        "C05",
                                        "notar-with-unacceptable-parent",
                                        format!("correct node {i} notarized a block in slot {slot} whose parent (slot {ps}) is not the block it notarized in slot {prev}"),
                                    );
                                }
                            } else {
                                // first slot of a window: parent must be certified (or genesis) and every slot between skip-certified
                                let certified = ps.is_genesis()
                                    || self.first_cert.keys().any(|(k, s2, h2)| {
                                        matches!(k, CertKind::Notar | CertKind::NotarFallback | CertKind::FastFinal) && s2 == ps && h2.as_ref() == Some(ph)
                                    })
                                    || self.finalized.get(ps).is_some_and(|(fh, _, _)| fh == ph);
                                let connected = (ps.inner() + 1..slot.inner())
                                    .all(|x| self.skip_certified.contains_key(&Slot::new(x)) || self.implicitly_skipped.contains_key(&Slot::new(x)));
                                if !certified || !connected {
                                    kernel::violation(
                                        "C05",
                                        "notar-with-unready-parent",
                                        format!("correct node {i} notarized a block in window-first slot {slot} whose parent in slot {ps} was never a ready parent (certified {certified}, skip-connected {connected})"),
                                    );
                                }
                            }
                            kernel::probe("c05_notar_votes_parent_checked");
                        }
                    }
                    VK::Skip => {}
                }
                model::apply_vote(st.entry(slot).or_default(), kind, tag);
            }
        }
    }

    /// Set of blocks (slot, hash) with a valid notar / notar-fallback / fast-final cert on the wire.
    pub fn certified_blocks(&self) -> BTreeSet<BlockId> {
        self.first_cert
            .keys()
            .filter(|(k, _, _)| matches!(k, CertKind::Notar | CertKind::NotarFallback | CertKind::FastFinal))
            .filter_map(|(_, s, h)| h.clone().map(|h| (*s, h)))
            .collect()
    }
}
