//! W3 `dissem`: leader-side shredding, the datagram network between leader and receiver
//! (loss decides *which* shreds arrive, reordering and duplication decide the order), receiver-side
//! validation and `BlockstoreImpl`, and independently constructed Rotor/Turbine instances.
//! Oracles: C11 (erasure coding), C12 (shred binding / equivocation), C13 (blockstore), C16 (routing).

use std::collections::{BTreeMap, BTreeSet};
use std::sync::Arc;
use std::time::Duration;

use alpenglow::disseminator::rotor::SamplingStrategy as _;
use alpenglow::consensus::{AddShredError, Blockstore, BlockstoreEvent, BlockstoreImpl};
use alpenglow::crypto::merkle::{BlockHash, DoubleMerkleTree};
use alpenglow::disseminator::rotor::{FaitAccompli1Sampler, IidQuorumSampler, StakeWeightedSampler};
use alpenglow::disseminator::{Rotor, TrivialDisseminator, Turbine};
use alpenglow::shredder::{
    AontShredder, CodingOnlyShredder, DeshredError, MAX_DATA_PER_SLICE, PetsShredder, RegularShredder, Shred,
    ShredIndex, Shredder, TOTAL_SHREDS, ValidatedShred,
};
use alpenglow::types::{Slice, Slot};
use alpenglow::{BlockId, Disseminator, Transaction};
use serde_json::json;
use tokio::sync::mpsc;

use crate::kernel;
use crate::keys;
use crate::net::{Iface, NetCfg, NetCore, SimNet, node_of, port_of, pump};
use crate::props::WorldOutcome;
use crate::wire::{self, si};

const G: &str = "gen";
const N: &str = "net";

// =============================================================================================
// C11

fn boundary_len(max: usize) -> usize {
    // boundary-biased over every residue of the padding scheme (multiples of 2*DATA_SHREDS = 64)
    match kernel::choose(G, 10) {
        0 => 0,
        1 => 1,
        2 => max,
        3 => max - 1,
        4 => max + 1,
        5 => 64 * (1 + kernel::choose(G, (max / 64) as u64 - 1) as usize),
        6 => 64 * (1 + kernel::choose(G, (max / 64) as u64 - 1) as usize) - 1,
        7 => 64 * (1 + kernel::choose(G, (max / 64) as u64 - 1) as usize) + 1,
        8 => kernel::choose(G, 200) as usize,
        _ => kernel::choose(G, max as u64 + 1) as usize,
    }
}

fn c11_one<S: Shredder>(name: &'static str) -> (bool, serde_json::Value) {
    let kp = keys::keypair(kernel::choose(G, 4) as usize);
    let with_parent = kernel::choose(G, 2) == 1;
    let parent: Option<BlockId> = if with_parent { Some((Slot::new(kernel::choose(G, 50)), wire::synth_hash(1, kernel::choose(G, 5)))) } else { None };
    let overhead = if with_parent { 1 + 8 + 32 } else { 1 } + 8;
    let max_data = S::MAX_DATA_SIZE - overhead;
    let len = boundary_len(max_data);
    let fill = kernel::choose(G, 4);
    let data: Vec<u8> = (0..len)
        .map(|i| match fill {
            0 => 0u8,
            1 => 0xFF,
            2 => 0x80,
            _ => (i as u8).wrapping_mul(31).wrapping_add(len as u8),
        })
        .collect();
    let slice = Slice {
        slot: Slot::new(1 + kernel::choose(G, 100)),
        slice_index: si(kernel::choose(G, 1024) as usize),
        is_last: kernel::choose(G, 2) == 1,
        parent: parent.clone(),
        data: data.clone(),
    };
    kernel::event_nt(&format!("c11 {name} len={len} max={max_data} parent={with_parent}"));
    let mut shredder = S::default();
    let shreds = match shredder.shred(&slice, &kp.sk) {
        Ok(s) => {
            if len > max_data {
                kernel::violation("C11", format!("oversize-accepted:{name}"), format!("{name}: slice with {len} data bytes (limit {max_data}) was shredded"));
                return (false, json!(null));
            }
            s
        }
        Err(e) => {
            if len <= max_data {
                kernel::violation("C11", format!("fitting-slice-refused:{name}"), format!("{name}: slice with {len} data bytes (limit {max_data}) refused: {e:?}"));
            } else {
                kernel::probe("c11_oversize_refused");
            }
            return (len > max_data, json!({"shredder": name, "len": len, "refused": true}));
        }
    };
    let originals: Vec<Vec<u8>> = shreds.iter().map(|s| wire::shred_bytes(s.as_shred())).collect();
    // the network: loss picks which shreds arrive, reordering the order, duplication repeats
    let keep = match kernel::choose(N, 6) {
        0 => 32,
        1 => 31,
        2 => 64,
        3 => 33,
        _ => kernel::choose(N, 65) as usize,
    };
    let mut order: Vec<usize> = (0..TOTAL_SHREDS).collect();
    for i in (1..order.len()).rev() {
        let j = i - kernel::choose(N, (i + 1) as u64) as usize;
        order.swap(i, j);
    }
    order.truncate(keep);
    if keep > 0 && kernel::choose(N, 3) == 0 {
        let d = order[kernel::choose(N, keep as u64) as usize];
        order.push(d); // duplicate delivery
    }
    let mut arr: [Option<ValidatedShred>; TOTAL_SHREDS] = [const { None }; TOTAL_SHREDS];
    let mut receiver = S::default();
    let mut distinct = 0usize;
    let mut reconstructed = false;
    for (k, idx) in order.iter().enumerate() {
        if arr[*idx].is_some() {
            kernel::fault("duplication");
            continue;
        }
        arr[*idx] = Some(shreds[*idx].clone());
        distinct += 1;
        if reconstructed {
            continue;
        }
        let before: Vec<Option<Vec<u8>>> = arr.iter().map(|s| s.as_ref().map(|s| wire::shred_bytes(s.as_shred()))).collect();
        let res = std::panic::catch_unwind(std::panic::AssertUnwindSafe(|| receiver.deshred(&mut arr)));
        let res = match res {
            Ok(r) => r,
            Err(_) => {
                let ps = kernel::take_panics();
                kernel::violation("C11", format!("panic:{name}"), format!("{name}: deshred panicked with {distinct} shreds (len {len}): {:?}", ps.last().map(|p| &p.message)));
                return (false, json!(null));
            }
        };
        match res {
            Ok(rs) => {
                if distinct < 32 {
                    kernel::violation("C11", format!("too-few-reconstructed:{name}"), format!("{name}: {distinct} shreds reconstructed a slice"));
                }
                reconstructed = true;
                let same = rs.slot == slice.slot && rs.slice_index == slice.slice_index && rs.is_last == slice.is_last && rs.parent == slice.parent && rs.data == slice.data;
                if !same {
                    kernel::violation(
                        "C11",
                        format!("wrong-slice:{name}"),
                        format!("{name}: reconstruction from {distinct} shreds differs from the original (len {len}, got len {}, parent {:?} vs {:?}, last {} vs {})", rs.data.len(), rs.parent.is_some(), slice.parent.is_some(), rs.is_last, slice.is_last),
                    );
                }
                for (i, s) in arr.iter().enumerate() {
                    match s {
                        None => kernel::violation("C11", format!("missing-not-regenerated:{name}"), format!("{name}: shred {i} not regenerated")),
                        Some(s) => {
                            let b = wire::shred_bytes(s.as_shred());
                            if b != originals[i] {
                                kernel::violation("C11", format!("regenerated-differs:{name}"), format!("{name}: regenerated shred {i} differs from the leader's (len {len}, from {distinct} shreds)"));
                            } else if before[i].is_none() {
                                // the regenerated shred must validate under the same signed root
                                let ok = wire::decode_shred(&b).is_some_and(|sh| ValidatedShred::try_new(sh, None, &kp.pk).is_ok());
                                if !ok {
                                    kernel::violation("C11", format!("regenerated-invalid:{name}"), format!("{name}: regenerated shred {i} does not validate"));
                                }
                            }
                        }
                    }
                }
            }
            Err(e) => {
                let after: Vec<Option<Vec<u8>>> = arr.iter().map(|s| s.as_ref().map(|s| wire::shred_bytes(s.as_shred()))).collect();
                if after != before {
                    kernel::violation("C11", format!("error-mutated-input:{name}"), format!("{name}: deshred returned {e:?} but changed the shred array"));
                }
                if distinct >= 32 {
                    kernel::violation("C11", format!("enough-not-reconstructed:{name}"), format!("{name}: {distinct} distinct shreds (last arrival #{k}) but deshred returned {e:?} (len {len})"));
                } else if e != DeshredError::NotEnoughShreds {
                    kernel::violation("C11", format!("wrong-error:{name}"), format!("{name}: {distinct} shreds, deshred returned {e:?} instead of NotEnoughShreds"));
                }
            }
        }
    }
    if keep < 64 {
        kernel::fault("loss");
    }
    kernel::fault("reordering");
    kernel::fingerprint(&format!("{name}:{len}:{with_parent}:{keep}"));
    (distinct > 0, json!({"shredder": name, "data_len": len, "limit": max_data, "with_parent": with_parent, "arrivals": order.len(), "distinct": distinct, "reconstructed": reconstructed}))
}

/// Decoding errors beyond "too few shreds": the receiver runs a different, layout-compatible
/// shredder than the leader (32 data + 32 coding shreds both), so erasure decoding and the Merkle
/// check succeed but the recovered bytes are not a valid slice payload. Whatever error results,
/// the supplied shreds must be left untouched.
fn c11_cross<S: Shredder, R: Shredder>(name: &'static str) -> (bool, serde_json::Value) {
    let kp = keys::keypair(kernel::choose(G, 4) as usize);
    let with_parent = kernel::choose(G, 2) == 1;
    let parent: Option<BlockId> = if with_parent { Some((Slot::new(kernel::choose(G, 50)), wire::synth_hash(1, 1))) } else { None };
    let len = kernel::choose(G, 3000) as usize;
    let slice = Slice {
        slot: Slot::new(1 + kernel::choose(G, 100)),
        slice_index: si(kernel::choose(G, 1024) as usize),
        is_last: kernel::choose(G, 2) == 1,
        parent,
        data: (0..len).map(|i| (i as u8).wrapping_mul(17)).collect(),
    };
    let Ok(shreds) = S::default().shred(&slice, &kp.sk) else { return (false, json!(null)) };
    let keep = 32 + kernel::choose(N, 33) as usize;
    let mut order: Vec<usize> = (0..TOTAL_SHREDS).collect();
    for i in (1..order.len()).rev() {
        let j = i - kernel::choose(N, (i + 1) as u64) as usize;
        order.swap(i, j);
    }
    let mut arr: [Option<ValidatedShred>; TOTAL_SHREDS] = [const { None }; TOTAL_SHREDS];
    for idx in order.iter().take(keep) {
        arr[*idx] = Some(shreds[*idx].clone());
    }
    kernel::fault("loss");
    kernel::fault("reordering");
    let before: Vec<Option<Vec<u8>>> = arr.iter().map(|s| s.as_ref().map(|s| wire::shred_bytes(s.as_shred()))).collect();
    let res = std::panic::catch_unwind(std::panic::AssertUnwindSafe(|| R::default().deshred(&mut arr)));
    kernel::event_nt(&format!("c11 cross {name} len={len} keep={keep}"));
    match res {
        Err(_) => {
            let ps = kernel::take_panics();
            kernel::violation("C11", format!("panic:{name}"), format!("{name}: deshred panicked: {:?}", ps.last().map(|p| &p.message)));
        }
        Ok(Ok(_)) => kernel::probe("c11_cross_shredder_decoded"),
        Ok(Err(e)) => {
            kernel::probe("c11_cross_shredder_errors");
            let after: Vec<Option<Vec<u8>>> = arr.iter().map(|s| s.as_ref().map(|s| wire::shred_bytes(s.as_shred()))).collect();
            if after != before {
                let filled = after.iter().filter(|x| x.is_some()).count();
                kernel::violation(
                    "C11",
                    format!("error-mutated-input:{name}"),
                    format!("{name}: deshred returned {e:?} but changed the supplied shreds ({keep} present before, {filled} after)"),
                );
            }
        }
    }
    kernel::fingerprint(&format!("{name}:{len}:{keep}"));
    (true, json!({"mode": name, "data_len": len, "present": keep}))
}

pub fn c11_run() -> WorldOutcome {
    let (nt, sample) = match kernel::choose(G, 10) {
        0 | 1 => c11_one::<RegularShredder>("regular"),
        2 | 3 => c11_one::<CodingOnlyShredder>("coding_only"),
        4 | 5 => c11_one::<AontShredder>("aont"),
        6 | 7 => c11_one::<PetsShredder>("pets"),
        8 => c11_cross::<AontShredder, RegularShredder>("aont-read-as-regular"),
        _ => c11_cross::<RegularShredder, AontShredder>("regular-read-as-aont"),
    };
    WorldOutcome { nontrivial: nt, sample, virt_ms: 0 }
}

// =============================================================================================
// receiver = the body of `Alpenglow::handle_disseminator_shred` on a real BlockstoreImpl

pub struct Receiver {
    pub bs: BlockstoreImpl,
    rx: mpsc::Receiver<BlockstoreEvent>,
    rt: tokio::runtime::Runtime,
    pub events: Vec<String>,
    pub blocks: Vec<(u64, BlockHash, BlockId)>,
    pub invalid: Vec<u64>,
    pub first_shred: Vec<u64>,
}

#[derive(Debug, PartialEq, Eq, Clone, Copy)]
pub enum Ingest {
    RejectedByValidation,
    Stored,
    Duplicate,
    Equivocation,
    InvalidShred,
}

impl Receiver {
    pub fn new() -> Self {
        let (tx, rx) = mpsc::channel(100_000);
        let rt = tokio::runtime::Builder::new_current_thread().build().expect("rt");
        Self { bs: BlockstoreImpl::new(tx), rx, rt, events: vec![], blocks: vec![], invalid: vec![], first_shred: vec![] }
    }

    /// What the message loop does with a shred off the wire.
    pub fn ingest(&mut self, shred: Shred, leader_pk: &alpenglow::crypto::signature::PublicKey) -> Ingest {
        let slot = shred_slot(&shred);
        let slice = shred_slice(&shred);
        let cached = self.bs.cached_commitment(slot, slice);
        let v = match ValidatedShred::try_new(shred, cached.as_ref(), leader_pk) {
            Ok(v) => v,
            Err(alpenglow::shredder::ShredValidationError::Equivocation) => {
                self.rt.block_on(self.bs.flag_leader_misbehavior(slot));
                self.drain();
                return Ingest::Equivocation;
            }
            Err(_) => return Ingest::RejectedByValidation,
        };
        let r = self.rt.block_on(self.bs.add_shred_from_dissemination(v));
        self.drain();
        match r {
            Ok(_) => Ingest::Stored,
            Err(AddShredError::Duplicate) => Ingest::Duplicate,
            Err(AddShredError::Equivocation) => Ingest::Equivocation,
            Err(AddShredError::InvalidShred) => Ingest::InvalidShred,
            Err(AddShredError::TypeMismatch) => Ingest::RejectedByValidation,
        }
    }

    pub fn drain(&mut self) {
        while let Ok(ev) = self.rx.try_recv() {
            match ev {
                BlockstoreEvent::FirstShred(s) => {
                    self.events.push("first".into());
                    self.first_shred.push(s.inner());
                }
                BlockstoreEvent::InvalidBlock(s) => {
                    self.events.push("invalid".into());
                    self.invalid.push(s.inner());
                }
                BlockstoreEvent::Block { slot, block_info } => {
                    self.events.push("block".into());
                    self.blocks.push((slot.inner(), block_info.verif_hash().clone(), block_info.verif_parent().clone()));
                }
            }
        }
    }
}

fn shred_slot(s: &Shred) -> Slot {
    let b = wire::shred_bytes(s);
    Slot::new(wire::get_u64(&b, wire::SHRED_OFF_SLOT))
}

fn shred_slice(s: &Shred) -> alpenglow::types::SliceIndex {
    let b = wire::shred_bytes(s);
    si(wire::get_u64(&b, wire::SHRED_OFF_SLICE) as usize)
}

// =============================================================================================
// block shapes

#[derive(Clone, Debug, PartialEq, Eq)]
pub enum Malform {
    None,
    ConflictingSlice,
    ContradictoryLast,
    SliceAfterLast,
    UndecodableTxs,
    FirstWithoutParent,
    ParentSwitchedTwice,
    ParentSwitchedToSelf,
    ParentNotEarlier,
}

fn txs(n: usize, tag: u64) -> Vec<u8> {
    let v: Vec<Transaction> = (0..n).map(|i| Transaction(vec![(tag as u8).wrapping_add(i as u8); 1 + (i * 37 + tag as usize) % 300])).collect();
    wire::txs_payload(&v)
}

/// Draws a block shape; returns the slices (well-formed unless `malform` says otherwise).
pub fn draw_block(slot: u64, max_slices: usize, malform: &Malform) -> Vec<Slice> {
    let n_slices = 1 + kernel::choose(G, max_slices as u64) as usize;
    let parent: BlockId = (Slot::new(kernel::choose(G, slot)), wire::synth_hash(0, 1 + kernel::choose(G, 3)));
    let switch_at = if n_slices >= 2 && kernel::choose(G, 3) == 0 { Some(1 + kernel::choose(G, (n_slices - 1) as u64) as usize) } else { None };
    let mut slices = Vec::new();
    for i in 0..n_slices {
        let size_kind = kernel::choose(G, 5);
        let data = match size_kind {
            0 => wire::txs_payload(&[]),
            1 => txs(1, i as u64),
            2 => txs(60, i as u64),
            _ => txs(1 + kernel::choose(G, 20) as usize, i as u64),
        };
        let mut p = if i == 0 { Some(parent.clone()) } else { None };
        if Some(i) == switch_at {
            // optimistic handover: the parent is switched once to a different earlier block
            p = Some((Slot::new(kernel::choose(G, slot)), wire::synth_hash(0, 7)));
        }
        slices.push(Slice { slot: Slot::new(slot), slice_index: si(i), is_last: i == n_slices - 1, parent: p, data });
    }
    match malform {
        Malform::None | Malform::ConflictingSlice | Malform::ContradictoryLast | Malform::SliceAfterLast => {}
        Malform::UndecodableTxs => {
            let k = kernel::choose(G, n_slices as u64) as usize;
            slices[k].data = vec![0xFF; 9 + kernel::choose(G, 50) as usize];
        }
        Malform::FirstWithoutParent => slices[0].parent = None,
        Malform::ParentSwitchedTwice => {
            while slices.len() < 3 {
                let i = slices.len();
                for s in &mut slices {
                    s.is_last = false;
                }
                slices.push(Slice { slot: Slot::new(slot), slice_index: si(i), is_last: true, parent: None, data: txs(1, 9) });
            }
            slices[1].parent = Some((Slot::new(kernel::choose(G, slot)), wire::synth_hash(0, 8)));
            slices[2].parent = Some((Slot::new(kernel::choose(G, slot)), wire::synth_hash(0, 9)));
        }
        Malform::ParentSwitchedToSelf => {
            if slices.len() < 2 {
                slices[0].is_last = false;
                slices.push(Slice { slot: Slot::new(slot), slice_index: si(1), is_last: true, parent: None, data: txs(1, 9) });
            }
            for s in slices.iter_mut().skip(1) {
                s.parent = None;
            }
            slices[1].parent = slices[0].parent.clone();
        }
        Malform::ParentNotEarlier => {
            let bad = slot + kernel::choose(G, 3);
            let sub = kernel::choose(G, 3);
            if sub == 2 {
                // a first parent that is not earlier, "repaired" by one otherwise legal switch
                if slices.len() < 2 {
                    slices[0].is_last = false;
                    slices.push(Slice { slot: Slot::new(slot), slice_index: si(1), is_last: true, parent: None, data: txs(1, 9) });
                }
                slices[0].parent = Some((Slot::new(bad), wire::synth_hash(0, 5)));
                for s in slices.iter_mut().skip(1) {
                    s.parent = None;
                }
                let k = 1 + kernel::choose(G, (slices.len() - 1) as u64) as usize;
                slices[k].parent = Some((Slot::new(kernel::choose(G, slot)), wire::synth_hash(0, 6)));
            } else if sub == 0 || slices.len() < 2 {
                slices[0].parent = Some((Slot::new(bad), wire::synth_hash(0, 5)));
                for s in slices.iter_mut().skip(1) {
                    s.parent = None;
                }
            } else {
                for s in slices.iter_mut().skip(1) {
                    s.parent = None;
                }
                slices[1].parent = Some((Slot::new(bad), wire::synth_hash(0, 5)));
            }
        }
    }
    slices
}

// =============================================================================================
// C13

pub fn c13_run(max_slices: usize) -> WorldOutcome {
    let leader = kernel::choose(G, 4) as usize;
    let kp = keys::keypair(leader);
    let slot = 2 + kernel::choose(G, 40);
    let malform = match kernel::choose(G, 14) {
        0 => Malform::ConflictingSlice,
        1 => Malform::ContradictoryLast,
        2 => Malform::SliceAfterLast,
        3 => Malform::UndecodableTxs,
        4 => Malform::FirstWithoutParent,
        5 => Malform::ParentSwitchedTwice,
        6 => Malform::ParentSwitchedToSelf,
        7 => Malform::ParentNotEarlier,
        _ => Malform::None,
    };
    let slices = draw_block(slot, max_slices, &malform);
    let Some(blk) = wire::build_block(slices.clone(), &kp.sk).or_else(|| {
        // FirstWithoutParent: build_block needs a parent for bookkeeping only
        let mut shredder = RegularShredder::default();
        let shreds: Option<Vec<Vec<ValidatedShred>>> = slices.iter().map(|s| shredder.shred(s, &kp.sk).ok().map(|a| a.to_vec())).collect();
        let shreds = shreds?;
        let roots: Vec<_> = shreds.iter().map(|s| s[0].slice_root().clone()).collect();
        let tree = DoubleMerkleTree::new(roots.iter());
        Some(wire::BuiltBlock { slot: Slot::new(slot), hash: tree.get_root(), parent: (Slot::genesis(), wire::synth_hash(0, 0)), slices: slices.clone(), shreds, tree })
    }) else {
        return WorldOutcome { nontrivial: false, sample: json!({"error": "slice too large"}), virt_ms: 0 };
    };
    // extra signed material for the malformations that need a second signing
    let mut extra: Vec<ValidatedShred> = Vec::new();
    let mut shredder = RegularShredder::default();
    match malform {
        Malform::ConflictingSlice => {
            let k = kernel::choose(G, slices.len() as u64) as usize;
            let mut s = slices[k].clone();
            s.data = txs(2, 99);
            extra = shredder.shred(&s, &kp.sk).expect("shred").to_vec();
        }
        Malform::ContradictoryLast => {
            // same content, last flag signed the other way round for one slice
            let k = kernel::choose(G, slices.len() as u64) as usize;
            let mut s = slices[k].clone();
            s.is_last = !s.is_last;
            extra = shredder.shred(&s, &kp.sk).expect("shred").to_vec();
        }
        Malform::SliceAfterLast => {
            let s = Slice { slot: Slot::new(slot), slice_index: si(slices.len() + kernel::choose(G, 3) as usize), is_last: kernel::choose(G, 2) == 1, parent: None, data: txs(1, 5) };
            extra = shredder.shred(&s, &kp.sk).expect("shred").to_vec();
        }
        _ => {}
    }
    // delivery schedule: per slice at least 32 shreds (so reconstruction is owed), any order, duplicates
    let mut sched: Vec<ValidatedShred> = Vec::new();
    let mut last_start = 0;
    for slice_shreds in &blk.shreds {
        last_start = sched.len();
        let keep = 32 + kernel::choose(N, 33) as usize;
        let mut idx: Vec<usize> = (0..TOTAL_SHREDS).collect();
        for i in (1..idx.len()).rev() {
            let j = i - kernel::choose(N, (i + 1) as u64) as usize;
            idx.swap(i, j);
        }
        for i in idx.into_iter().take(keep) {
            sched.push(slice_shreds[i].clone());
            if kernel::choose(N, 12) == 0 {
                sched.push(slice_shreds[i].clone());
                kernel::fault("duplication");
            }
        }
    }
    let n_extra = if extra.is_empty() { 0 } else { 1 + kernel::choose(N, 40) as usize };
    let order = kernel::choose(N, 5);
    if order == 1 || order == 2 {
        // the contradicting shreds arrive before (1) everything or (2) the block's last slice
        let at = if order == 1 { 0 } else { last_start };
        let tail = sched.split_off(at);
        sched.extend(extra.iter().take(n_extra).cloned());
        sched.extend(tail);
        kernel::fault("reordering");
    } else {
        for s in extra.iter().take(n_extra) {
            sched.push(s.clone());
        }
    }
    match order {
        0 | 1 | 2 => {} // slice by slice
        _ => {
            for i in (1..sched.len()).rev() {
                let j = i - kernel::choose(N, (i + 1) as u64) as usize;
                sched.swap(i, j);
            }
            kernel::fault("reordering");
        }
    }
    kernel::fault("loss");
    kernel::event_nt(&format!("c13 slot={slot} slices={} malform={malform:?} deliveries={}", slices.len(), sched.len()));
    let mut rcv = Receiver::new();
    let mut outcomes: BTreeMap<String, u32> = BTreeMap::new();
    for s in &sched {
        let sh = wire::decode_shred(&wire::shred_bytes(s.as_shred())).expect("own shred decodes");
        let r = match std::panic::catch_unwind(std::panic::AssertUnwindSafe(|| rcv.ingest(sh, &kp.pk))) {
            Ok(r) => r,
            Err(_) => {
                let ps = kernel::take_panics();
                kernel::violation("C13", "panic", format!("blockstore panicked on a validly signed shred ({malform:?}): {:?}", ps.last().map(|p| format!("{} @ {}", p.message, p.location))));
                return WorldOutcome { nontrivial: false, sample: json!(null), virt_ms: 0 };
            }
        };
        *outcomes.entry(format!("{r:?}")).or_insert(0) += 1;
    }
    let well_formed = malform == Malform::None;
    let id: BlockId = (Slot::new(slot), blk.hash.clone());
    if well_formed {
        if rcv.first_shred != vec![slot] {
            kernel::violation("C13", "first-shred:not-exactly-once", format!("FirstShred events {:?} for slot {slot}", rcv.first_shred));
        }
        if rcv.blocks.len() != 1 {
            kernel::violation("C13", if rcv.blocks.is_empty() { "block:not-reconstructed" } else { "block:announced-twice" }, format!("{} Block events for a correct leader's block with >=32 shreds of each of {} slices delivered; invalid={:?}", rcv.blocks.len(), slices.len(), rcv.invalid));
        }
        if !rcv.invalid.is_empty() {
            kernel::violation("C13", "correct-leader-flagged", format!("InvalidBlock for a correct leader's well-formed block (slot {slot})"));
        }
        if let Some((s, h, p)) = rcv.blocks.first() {
            if *s != slot || *h != blk.hash {
                kernel::violation("C13", "block:wrong-hash", format!("announced hash differs from the double-Merkle root of the slice roots"));
            }
            if *p != blk.parent {
                kernel::violation("C13", "block:wrong-parent", format!("announced parent {:?} differs from the leader's {:?}", p.0, blk.parent.0));
            }
            // serving
            if rcv.bs.disseminated_block_hash(Slot::new(slot)) != Some(&blk.hash) {
                kernel::violation("C13", "serve:disseminated_block_hash", "disseminated_block_hash does not return the block".to_string());
            }
            if rcv.bs.get_block(&id).is_none() {
                kernel::violation("C13", "serve:get_block", "get_block returns nothing for the reconstructed block".to_string());
            }
            if rcv.bs.get_last_slice_index(&id) != Some(si(slices.len() - 1)) {
                kernel::violation("C13", "serve:last_slice_index", "wrong last slice index".to_string());
            }
            for (k, slice_shreds) in blk.shreds.iter().enumerate() {
                let root = slice_shreds[0].slice_root().clone();
                if rcv.bs.get_slice_root(&id, si(k)).as_ref() != Some(&root) {
                    kernel::violation("C13", "serve:slice_root", format!("slice root {k} not served correctly"));
                }
                match rcv.bs.create_double_merkle_proof(&id, si(k)) {
                    Some(proof) => {
                        if !DoubleMerkleTree::check_proof(&root, k, &blk.hash, &proof) {
                            kernel::violation("C13", "serve:proof", format!("double-Merkle proof for slice {k} does not verify"));
                        }
                    }
                    None => kernel::violation("C13", "serve:proof", format!("no double-Merkle proof for slice {k}")),
                }
                for (i, orig) in slice_shreds.iter().enumerate() {
                    match rcv.bs.get_shred(&id, si(k), ShredIndex::new(i).expect("idx")) {
                        Some(s) => {
                            if wire::shred_bytes(s.as_shred()) != wire::shred_bytes(orig.as_shred()) {
                                kernel::violation("C13", "serve:shred-differs", format!("served shred {k}/{i} differs from the leader's"));
                            }
                        }
                        None => kernel::violation("C13", "serve:shred-missing", format!("shred {k}/{i} cannot be served after reconstruction")),
                    }
                }
            }
        }
        // leader fast path stores the same block
        let mut own = Receiver::new();
        let mut own_hash = None;
        for (k, s) in slices.iter().enumerate() {
            let arr: Box<[ValidatedShred; TOTAL_SHREDS]> = Box::new(std::array::from_fn(|i| blk.shreds[k][i].clone()));
            let payload = slice_payload(s);
            let r = own.rt.block_on(own.bs.add_own_slice(payload, arr));
            if let Some(bi) = r {
                own_hash = Some(bi.verif_hash().clone());
            }
        }
        own.drain();
        if own_hash.as_ref() != Some(&blk.hash) || own.blocks.len() != 1 || own.first_shred != vec![slot] {
            kernel::violation("C13", "fast-path:differs", format!("leader fast path announced {:?} blocks / hash equal: {}", own.blocks.len(), own_hash.as_ref() == Some(&blk.hash)));
        }
    } else {
        let n_flagged = rcv.invalid.len();
        let delivered_evidence = match malform {
            Malform::ConflictingSlice | Malform::ContradictoryLast | Malform::SliceAfterLast => n_extra > 0,
            _ => true,
        };
        if delivered_evidence {
            if n_flagged == 0 {
                kernel::violation(
                    "C13",
                    format!("malformed-not-flagged:{malform:?}"),
                    format!("{malform:?} block in slot {slot}: no InvalidBlock; Block events: {} (ingest outcomes {outcomes:?})", rcv.blocks.len()),
                );
            } else if n_flagged > 1 {
                kernel::violation("C13", "invalid-announced-twice", format!("InvalidBlock announced {n_flagged} times for slot {slot}"));
            }
        }
        // never a Block from dissemination *after* the InvalidBlock
        if let Some(pos_inv) = rcv.events.iter().position(|e| e == "invalid")
            && rcv.events.iter().skip(pos_inv).any(|e| e == "block")
        {
            kernel::violation("C13", "block-after-invalid", format!("Block announced after InvalidBlock for slot {slot} ({malform:?})"));
        }
    }
    kernel::fingerprint(&format!("{malform:?}:{}:{:?}", slices.len(), outcomes));
    let sample = json!({"slot": slot, "slices": slices.len(), "malformation": format!("{malform:?}"), "deliveries": sched.len(), "ingest_outcomes": outcomes,
        "block_events": rcv.blocks.len(), "invalid_events": rcv.invalid.len(), "first_shred_events": rcv.first_shred.len()});
    WorldOutcome { nontrivial: true, sample, virt_ms: 0 }
}

fn slice_payload(s: &Slice) -> alpenglow::types::SlicePayload {
    // SlicePayload has no public constructor: go through its wire form (parent, data)
    let mut b = Vec::new();
    b.extend(wincode::serialize(&s.parent).expect("ser"));
    b.extend(wincode::serialize(&s.data).expect("ser"));
    alpenglow::types::SlicePayload::try_from(b.as_slice()).expect("payload")
}

// =============================================================================================
// C12

#[derive(Clone, Copy, Debug, PartialEq, Eq, PartialOrd, Ord)]
pub enum Mutation {
    Slot,
    SliceIndex,
    LastFlag,
    ShredIndex,
    PayloadByte,
    PayloadLength,
    ProofElement,
    ProofLength,
    Signature,
    TypeTag,
    CrossReplayOtherSlice,
    CrossReplayOtherSlot,
    Splice,
}

const MUTS: [Mutation; 13] = [
    Mutation::Slot, Mutation::SliceIndex, Mutation::LastFlag, Mutation::ShredIndex, Mutation::PayloadByte, Mutation::PayloadLength,
    Mutation::ProofElement, Mutation::ProofLength, Mutation::Signature, Mutation::TypeTag, Mutation::CrossReplayOtherSlice,
    Mutation::CrossReplayOtherSlot, Mutation::Splice,
];

fn mutate(b: &[u8], m: Mutation, other_slice: &[u8], other_slot: &[u8]) -> Option<Vec<u8>> {
    let mut v = b.to_vec();
    let lay = wire::shred_layout(&v)?;
    match m {
        Mutation::Slot => {
            let s = wire::get_u64(&v, wire::SHRED_OFF_SLOT);
            wire::put_u64(&mut v, wire::SHRED_OFF_SLOT, s + 1 + kernel::choose(G, 3));
        }
        Mutation::SliceIndex => {
            let s = wire::get_u64(&v, wire::SHRED_OFF_SLICE);
            wire::put_u64(&mut v, wire::SHRED_OFF_SLICE, (s + 1 + kernel::choose(G, 3)) % 1024);
        }
        Mutation::LastFlag => v[wire::SHRED_OFF_LAST] ^= 1,
        Mutation::ShredIndex => {
            let s = wire::get_u64(&v, wire::SHRED_OFF_INDEX);
            wire::put_u64(&mut v, wire::SHRED_OFF_INDEX, (s + 1 + kernel::choose(G, 62)) % 64);
        }
        Mutation::PayloadByte => {
            if lay.data_len == 0 {
                return None;
            }
            let i = wire::SHRED_OFF_DATA + kernel::choose(G, lay.data_len as u64) as usize;
            v[i] ^= 1 << kernel::choose(G, 8);
        }
        Mutation::PayloadLength => {
            // drop or add trailing payload bytes (length prefix adjusted so the shred still decodes)
            if kernel::choose(G, 2) == 0 && lay.data_len >= 2 {
                v.drain(lay.sig_off - 2..lay.sig_off);
                wire::put_u64(&mut v, wire::SHRED_OFF_DATALEN, (lay.data_len - 2) as u64);
            } else {
                v.splice(lay.sig_off..lay.sig_off, [0u8, 0u8]);
                wire::put_u64(&mut v, wire::SHRED_OFF_DATALEN, (lay.data_len + 2) as u64);
            }
        }
        Mutation::ProofElement => {
            if lay.proof_elems == 0 {
                return None;
            }
            let e = kernel::choose(G, lay.proof_elems as u64) as usize;
            v[lay.proof_off + 32 * e + kernel::choose(G, 32) as usize] ^= 1 << kernel::choose(G, 8);
        }
        Mutation::ProofLength => {
            if kernel::choose(G, 2) == 0 && lay.proof_elems > 0 {
                v.truncate(v.len() - 32);
                wire::put_u64(&mut v, lay.proof_len_off, (lay.proof_elems - 1) as u64);
            } else {
                v.extend([0x11u8; 32]);
                wire::put_u64(&mut v, lay.proof_len_off, (lay.proof_elems + 1) as u64);
            }
        }
        Mutation::Signature => v[lay.sig_off + kernel::choose(G, 64) as usize] ^= 1 << kernel::choose(G, 8),
        Mutation::TypeTag => v[wire::SHRED_OFF_TAG] ^= 1,
        Mutation::CrossReplayOtherSlice => {
            // genuine shred of another slice, re-labelled as this slice
            v = other_slice.to_vec();
            let s = wire::get_u64(b, wire::SHRED_OFF_SLICE);
            wire::put_u64(&mut v, wire::SHRED_OFF_SLICE, s);
        }
        Mutation::CrossReplayOtherSlot => {
            v = other_slot.to_vec();
            let s = wire::get_u64(b, wire::SHRED_OFF_SLOT);
            wire::put_u64(&mut v, wire::SHRED_OFF_SLOT, s);
        }
        Mutation::Splice => {
            // header+payload of this shred with signature+proof of a shred of another slice
            let lo = wire::shred_layout(other_slice)?;
            v.truncate(lay.sig_off);
            v.extend_from_slice(&other_slice[lo.sig_off..]);
        }
    }
    Some(v)
}

pub fn c12_run() -> WorldOutcome {
    let leader = kernel::choose(G, 4) as usize;
    let kp = keys::keypair(leader);
    let slot = 2 + kernel::choose(G, 40);
    let blk = wire::simple_block(Slot::new(slot), (Slot::new(kernel::choose(G, slot)), wire::synth_hash(0, 1)), 2 + kernel::choose(G, 2) as usize, 3, &kp.sk);
    let other = wire::simple_block(Slot::new(slot + 1), (Slot::new(slot), blk.hash.clone()), 1, 4, &kp.sk);
    let mode = kernel::choose(G, 3);
    let mut rcv = Receiver::new();
    let mut classes_delivered: BTreeSet<Mutation> = BTreeSet::new();
    let mut accepted_tampered = 0;
    kernel::event_nt(&format!("c12 slot={slot} mode={mode}"));

    if mode < 2 {
        // honest leader, tamperer on the path; with a cached commitment (some genuine shreds first) or without
        let with_cache = mode == 1;
        let target_slice = kernel::choose(G, blk.shreds.len() as u64) as usize;
        if with_cache {
            for i in 0..(1 + kernel::choose(G, 5) as usize) {
                let b = wire::shred_bytes(blk.shreds[target_slice][i].as_shred());
                let _ = rcv.ingest(wire::decode_shred(&b).expect("dec"), &kp.pk);
            }
        }
        let n_mut = 3 + kernel::choose(G, 10);
        for _ in 0..n_mut {
            let m = MUTS[kernel::choose(G, MUTS.len() as u64) as usize];
            let i = 8 + kernel::choose(G, 50) as usize;
            let genuine = wire::shred_bytes(blk.shreds[target_slice][i].as_shred());
            let o_slice = wire::shred_bytes(blk.shreds[(target_slice + 1) % blk.shreds.len()][i].as_shred());
            let o_slot = wire::shred_bytes(other.shreds[0][i].as_shred());
            let Some(bytes) = mutate(&genuine, m, &o_slice, &o_slot) else { continue };
            let Some(sh) = wire::decode_shred(&bytes) else {
                kernel::probe("c12_mutant_rejected_by_decoder");
                continue;
            };
            classes_delivered.insert(m);
            kernel::fault("shred_tampering");
            // a commitment may be cached from the genuine prefix or from an earlier accepted shred
            let with_cache = with_cache || rcv.bs.cached_commitment(shred_slot(&sh), shred_slice(&sh)).is_some();
            let res = std::panic::catch_unwind(std::panic::AssertUnwindSafe(|| rcv.ingest(sh, &kp.pk)));
            let Ok(r) = res else {
                let ps = kernel::take_panics();
                kernel::violation("C12", format!("panic:{m:?}"), format!("tampered shred ({m:?}) panicked the receiver: {:?}", ps.last().map(|p| format!("{} @ {}", p.message, p.location))));
                break;
            };
            kernel::event_nt(&format!("mut {m:?} -> {r:?}"));
            if r != Ingest::RejectedByValidation {
                accepted_tampered += 1;
                // accepted although altered: only legitimate if every bound field still equals a genuine shred's
                let bound_equal = [&blk, &other].iter().any(|b| {
                    b.shreds.iter().flatten().any(|g| {
                        // bound fields: header, shred index, payload and proof (=> root); the type tag and
                        // the signature bytes are not (a cached identical commitment vouches for the latter)
                        let gb = wire::shred_bytes(g.as_shred());
                        match (wire::shred_layout(&gb), wire::shred_layout(&bytes)) {
                            (Some(lg), Some(lb)) => gb.len() == bytes.len() && lg.sig_off == lb.sig_off && gb[4..lg.sig_off] == bytes[4..lb.sig_off] && gb[lg.proof_len_off..] == bytes[lb.proof_len_off..] && (with_cache || gb[lg.sig_off..lg.proof_len_off] == bytes[lb.sig_off..lb.proof_len_off]),
                            _ => false,
                        }
                    })
                });
                if !bound_equal {
                    kernel::violation("C12", format!("tampered-accepted:{m:?}"), format!("shred altered by {m:?} passed validation ({r:?}, cache {with_cache})"));
                }
            }
        }
        // now the genuine shreds of every slice arrive: the correct leader must not be flagged
        for slice_shreds in &blk.shreds {
            let mut idx: Vec<usize> = (0..TOTAL_SHREDS).collect();
            for i in (1..idx.len()).rev() {
                let j = i - kernel::choose(N, (i + 1) as u64) as usize;
                idx.swap(i, j);
            }
            for i in idx.into_iter().take(40) {
                let b = wire::shred_bytes(slice_shreds[i].as_shred());
                let _ = rcv.ingest(wire::decode_shred(&b).expect("dec"), &kp.pk);
            }
        }
        if !rcv.invalid.is_empty() {
            kernel::violation(
                "C12",
                "correct-leader-reported",
                format!("correct leader of slot {slot} reported as misbehaving (InvalidBlock) after tampered shreds {classes_delivered:?} (accepted: {accepted_tampered}, cache {with_cache})"),
            );
        } else if rcv.blocks.len() != 1 {
            kernel::violation(
                "C12",
                "tampering-blocked-reconstruction",
                format!("correct leader's block not reconstructed ({} Block events) after tampered shreds {classes_delivered:?} (accepted: {accepted_tampered})", rcv.blocks.len()),
            );
        }
    } else {
        // Byzantine leader: two different validly signed commitments for one (slot, slice), both orders
        let k = kernel::choose(G, blk.shreds.len() as u64) as usize;
        let mut s2 = blk.slices[k].clone();
        match kernel::choose(G, 3) {
            0 => s2.data = wire::txs_payload(&[Transaction(vec![9; 9])]),
            1 => s2.is_last = !s2.is_last,
            _ => s2.data.push(0),
        }
        let mut shredder = RegularShredder::default();
        let Ok(alt) = shredder.shred(&s2, &kp.sk) else { return WorldOutcome { nontrivial: false, sample: json!(null), virt_ms: 0 } };
        let first_alt = kernel::choose(N, 2) == 1;
        let (a, b): (&[ValidatedShred], &[ValidatedShred]) = if first_alt { (&alt[..], &blk.shreds[k][..]) } else { (&blk.shreds[k][..], &alt[..]) };
        let na = 1 + kernel::choose(N, 20) as usize;
        let mut silent_both = true;
        let mut verdicts = Vec::new();
        if !first_alt && kernel::choose(N, 3) == 1 {
            // the first version's whole block is delivered (and reconstructed) before the conflict shows up
            for slice_shreds in &blk.shreds {
                for s in slice_shreds {
                    let _ = rcv.ingest(wire::decode_shred(&wire::shred_bytes(s.as_shred())).expect("dec"), &kp.pk);
                }
            }
            kernel::probe("c12_conflict_after_block_complete");
        }
        let complete_first = !first_alt && rcv.blocks.len() == 1;
        // (after a complete delivery the first version is not offered again: the conflicting shred is
        // the very next thing the receiver sees for that slice)
        for s in a.iter().take(if complete_first { 0 } else { na }) {
            let r = rcv.ingest(wire::decode_shred(&wire::shred_bytes(s.as_shred())).expect("dec"), &kp.pk);
            verdicts.push(r);
        }
        for s in b.iter().skip(30).take(3) {
            let r = rcv.ingest(wire::decode_shred(&wire::shred_bytes(s.as_shred())).expect("dec"), &kp.pk);
            verdicts.push(r);
            if r != Ingest::Stored && r != Ingest::Duplicate {
                silent_both = false;
            }
        }
        kernel::fault("byzantine_leader_equivocation");
        // ValidatedShred::try_new reports Equivocation for the second commitment (=> RejectedByValidation here)
        // or the blockstore does; silently storing shreds of both commitments is the violation
        if silent_both {
            kernel::violation("C12", "equivocation-silently-accepted", format!("two different signed commitments for slot {slot} slice {k} were both stored: {verdicts:?}"));
        }
        classes_delivered.insert(Mutation::Splice);
    }
    for m in &classes_delivered {
        kernel::fingerprint(&format!("{m:?}"));
    }
    kernel::fingerprint(&format!("{mode}:{accepted_tampered}"));
    let mode_name = ["tamperer-no-cache", "tamperer-with-cache", "equivocating-leader"][mode as usize];
    let sample = json!({"slot": slot, "mode": mode_name,
        "mutation_classes_delivered": classes_delivered.iter().map(|m| format!("{m:?}")).collect::<Vec<_>>(),
        "tampered_accepted": accepted_tampered, "invalid_events": rcv.invalid.len(), "block_events": rcv.blocks.len()});
    WorldOutcome { nontrivial: !classes_delivered.is_empty(), sample, virt_ms: 0 }
}

// =============================================================================================
// C16: independently constructed disseminator instances on a recording, loss-free network

#[derive(Clone, Copy, Debug, PartialEq)]
enum DKind {
    Trivial,
    Rotor,
    /// `Rotor::new` switched to another sampler with `with_sampler`, some instances only after
    /// they had already routed shreds of the block (their relay cache is warm at the switch)
    RotorSwitched,
    RotorFa1,
    Turbine(usize),
}

async fn node_loop<D: Disseminator>(d: Arc<D>, leader: usize, me: usize, received: Arc<std::sync::Mutex<BTreeMap<(usize, Vec<u8>), u32>>>) {
    loop {
        let Ok(shred) = d.receive().await else { return };
        let key = (me, wire::shred_bytes(&shred)[4..37].to_vec());
        *received.lock().unwrap().entry(key).or_insert(0) += 1;
        // what the message loop does: forward; (the leader does not ingest)
        let _ = d.forward(&shred).await;
        let _ = leader;
    }
}

pub fn c16_run(max_n: usize) -> WorldOutcome {
    let n = 2 + kernel::choose(G, (max_n - 1) as u64) as usize;
    let (stakes, stake_kind) = keys::draw_stakes(n, G);
    let kind = match kernel::choose(G, 7) {
        0 => DKind::Trivial,
        1 | 2 => DKind::Rotor,
        6 => DKind::RotorSwitched,
        3 => DKind::RotorFa1,
        4 => DKind::Turbine(1 + kernel::choose(G, n as u64) as usize),
        _ => DKind::Turbine(200),
    };
    let window = 1 + kernel::choose(G, 12);
    let slot = window * 4 + kernel::choose(G, 4);
    let leader = (window % n as u64) as usize;
    let tokio_seed = kernel::choose(G, 1 << 30);
    let rt = tokio::runtime::Builder::new_current_thread()
        .enable_time()
        .start_paused(true)
        .rng_seed(tokio::runtime::RngSeed::from_bytes(&tokio_seed.to_le_bytes()))
        .build()
        .expect("rt");
    let stakes2 = stakes.clone();
    let out = rt.block_on(async move {
        kernel::set_t0();
        let stakes = stakes2;
        let vals = keys::validator_infos(&stakes);
        let mut cfg = NetCfg::benign(n);
        cfg.base_ms = 1 + kernel::choose(N, 30);
        cfg.jitter_ms = kernel::choose(N, 80); // arbitrary delays / reordering, no loss
        let net = NetCore::new(n, cfg);
        tokio::spawn(pump(net.clone()));
        let received: Arc<std::sync::Mutex<BTreeMap<(usize, Vec<u8>), u32>>> = Arc::new(std::sync::Mutex::new(BTreeMap::new()));
        // instances are constructed at different simulated times and in a sampled order
        let mut order: Vec<usize> = (0..n).collect();
        for i in (1..n).rev() {
            let j = i - kernel::choose(G, (i + 1) as u64) as usize;
            order.swap(i, j);
        }
        let mut leader_send: Option<Box<dyn Fn(Shred) -> std::pin::Pin<Box<dyn std::future::Future<Output = ()>>>>> = None;
        let local = tokio::task::LocalSet::new();
        let kp = keys::keypair(leader);
        let blk = wire::simple_block(Slot::new(slot), (Slot::new(slot - 1), wire::synth_hash(0, 1)), 1 + kernel::choose(G, 2) as usize, 5, &kp.sk);
        let total_shreds: usize = blk.shreds.iter().map(Vec::len).sum();
        local
            .run_until(async {
                for &i in &order {
                    tokio::time::sleep(Duration::from_millis(kernel::choose(G, 50))).await;
                    let ei = keys::vepoch(i, &stakes);
                    let dnet = SimNet::<Shred, Shred>::new(&net, port_of(i, Iface::Dissem));
                    macro_rules! start {
                        ($d:expr) => {{
                            let d = Arc::new($d);
                            tokio::task::spawn_local(node_loop(d.clone(), leader, i, received.clone()));
                            if i == leader {
                                let d2 = d.clone();
                                leader_send = Some(Box::new(move |s: Shred| {
                                    let d3 = d2.clone();
                                    Box::pin(async move {
                                        let _ = d3.send(&s).await;
                                    })
                                }));
                            }
                        }};
                    }
                    match kind {
                        DKind::Trivial => start!(TrivialDisseminator::new(vals.clone(), dnet)),
                        DKind::Rotor => {
                            let d: Rotor<_, IidQuorumSampler<StakeWeightedSampler>> = Rotor::new(dnet, ei);
                            start!(d)
                        }
                        DKind::RotorSwitched => {
                            let d: Rotor<_, IidQuorumSampler<StakeWeightedSampler>> = Rotor::new(dnet, ei);
                            if kernel::choose(G, 2) == 1 {
                                // this instance routes the block's shreds once under the old sampler
                                for slice_shreds in &blk.shreds {
                                    let _ = d.forward(slice_shreds[0].as_shred()).await;
                                    let _ = d.forward(slice_shreds[TOTAL_SHREDS - 1].as_shred()).await;
                                }
                                kernel::fault("rotor_cache_warm_before_sampler_switch");
                            }
                            // everybody switches to the same new sampler (reversed stakes)
                            let mut v2 = vals.clone();
                            let nn = v2.len();
                            for (k, v) in v2.iter_mut().enumerate() {
                                v.stake = vals[nn - 1 - k].stake;
                            }
                            let d = d.with_sampler(StakeWeightedSampler::new(v2).into_quorum_strategy(TOTAL_SHREDS));
                            start!(d)
                        }
                        DKind::RotorFa1 => {
                            let d: Rotor<_, FaitAccompli1Sampler<_>> = Rotor::new_fa1(dnet, ei);
                            start!(d)
                        }
                        DKind::Turbine(f) => start!(Turbine::new(dnet, ei).with_fanout(f)),
                    }
                }
                if kind == DKind::RotorSwitched {
                    // whatever the warm-up put on the wire is not part of the run that is judged
                    for _ in 0..100 {
                        tokio::time::sleep(Duration::from_millis(200)).await;
                        if net.lock().unwrap().queue_len() == 0 {
                            break;
                        }
                    }
                    net.lock().unwrap().taps.clear();
                    received.lock().unwrap().clear();
                }
                // warm some caches in a sampled call order before the real block (other slots)
                let send = leader_send.take().expect("leader instance");
                for slice_shreds in &blk.shreds {
                    let mut idx: Vec<usize> = (0..TOTAL_SHREDS).collect();
                    if kernel::choose(G, 2) == 1 {
                        for i in (1..idx.len()).rev() {
                            let j = i - kernel::choose(G, (i + 1) as u64) as usize;
                            idx.swap(i, j);
                        }
                    }
                    for i in idx {
                        send(slice_shreds[i].as_shred().clone()).await;
                    }
                }
                // wait for quiescence (deep Turbine trees with fanout 1 need many hops)
                let mut idle = 0;
                for _ in 0..600 {
                    tokio::time::sleep(Duration::from_millis(200)).await;
                    if net.lock().unwrap().queue_len() == 0 {
                        idle += 1;
                        if idle >= 3 {
                            break;
                        }
                    } else {
                        idle = 0;
                    }
                }
            })
            .await;
        // analysis on the recording transport
        let taps = net.lock().unwrap().taps.clone();
        let rec = received.lock().unwrap().clone();
        let mut violations = 0;
        for slice_shreds in &blk.shreds {
            for s in slice_shreds {
                let key = wire::shred_bytes(s.as_shred())[4..37].to_vec();
                // senders of this shred on the wire
                let mut sends: Vec<(usize, Vec<usize>)> = Vec::new();
                for t in &taps {
                    if t.bytes.len() > 37 && t.bytes[4..37] == key[..] {
                        sends.push((t.from_node, t.to_ports.iter().map(|p| node_of(*p)).collect()));
                    }
                }
                for v in 0..n {
                    if v == leader {
                        continue;
                    }
                    let cnt = rec.get(&(v, key.clone())).copied().unwrap_or(0);
                    let want_once = matches!(kind, DKind::Turbine(_) | DKind::Trivial);
                    if cnt == 0 {
                        violations += 1;
                        kernel::violation(
                            "C16",
                            format!("not-delivered:{}", kind_name(kind)),
                            format!("{kind:?} n={n} stakes={stakes:?}: shred (slot {slot}) never reached validator {v} in a fault-free run; sends: {sends:?}"),
                        );
                    } else if cnt > 1 && want_once {
                        violations += 1;
                        kernel::violation("C16", format!("delivered-twice:{}", kind_name(kind)), format!("{kind:?} n={n}: validator {v} received a shred {cnt} times; sends: {sends:?}"));
                    }
                    if violations > 0 {
                        break;
                    }
                }
                if matches!(kind, DKind::Rotor | DKind::RotorSwitched | DKind::RotorFa1) {
                    // every transmission except the leader's initial unicast is a relay broadcast
                    let from_leader = sends.iter().filter(|(f, _)| *f == leader).count();
                    let relay_broadcasts = sends.len() - from_leader + from_leader.saturating_sub(1);
                    if relay_broadcasts > 1 {
                        kernel::violation(
                            "C16",
                            format!("relay-broadcasts:{}", kind_name(kind)),
                            format!("{kind:?} n={n} stakes={stakes:?}: shred was broadcast by {relay_broadcasts} relays (expected exactly one); sends: {sends:?}"),
                        );
                    }
                }
                if kernel::has_violation() {
                    break;
                }
            }
        }
        (total_shreds, kernel::now_ms())
    });
    drop(rt);
    kernel::fingerprint(&format!("{kind:?}:{n}:{stakes:?}:{slot}"));
    let sample = json!({"disseminator": format!("{kind:?}"), "n": n, "stakes": stakes, "stake_kind": stake_kind, "slot": slot, "leader": leader, "shreds_sent": out.0});
    WorldOutcome { nontrivial: n >= 3, sample, virt_ms: out.1 }
}

fn kind_name(k: DKind) -> &'static str {
    match k {
        DKind::Trivial => "trivial",
        DKind::Rotor => "rotor",
        DKind::RotorSwitched => "rotor_switched",
        DKind::RotorFa1 => "rotor_fa1",
        DKind::Turbine(_) => "turbine",
    }
}
