//! (to be filled in)
