//! Hostile inputs on all five interfaces of real nodes (C10) and forged consensus messages (C09),
//! interleaved with normal traffic. Everything is drawn from the `hostile` stream (0 = do nothing).

use std::collections::BTreeMap;

use alpenglow::crypto::merkle::BlockHash;
use alpenglow::repair::{RepairRequestType, RepairResponse};
use alpenglow::shredder::ShredIndex;
use alpenglow::types::Slot;
use alpenglow::{BlockId, Transaction};

use crate::cluster::{ClusterCfg, Profile, Role};
use crate::kernel;
use crate::net::{Iface, SharedNet, port_of};
use crate::oracle::Observer;
use crate::wire::{self, si};

const H: &str = "hostile";

pub struct Hostile {
    enabled: bool,
    forger: bool,
    hostile: bool,
    tap_cursor: usize,
    recent_a2a: Vec<Vec<u8>>,
    recent_shreds: Vec<Vec<u8>>,
    until_ms: Option<u64>,
}

impl Hostile {
    pub fn new(cfg: &ClusterCfg, profile: &Profile) -> Self {
        Self {
            enabled: profile.hostile || profile.forger,
            forger: profile.forger,
            hostile: profile.hostile,
            tap_cursor: 0,
            recent_a2a: Vec::new(),
            recent_shreds: Vec::new(),
            // in liveness profiles the hostile phase ends at the stabilisation time
            until_ms: if profile.liveness { cfg.net.stabilise_at_ms } else { None },
        }
    }

    fn targets(cfg: &ClusterCfg) -> Vec<usize> {
        (0..cfg.n).filter(|i| cfg.roles[*i] == Role::Correct).collect()
    }

    fn pick_target(cfg: &ClusterCfg) -> Option<usize> {
        let t = Self::targets(cfg);
        if t.is_empty() { None } else { Some(t[kernel::choose(H, t.len() as u64) as usize]) }
    }

    pub fn tick(&mut self, cfg: &ClusterCfg, net: &SharedNet, obs: &Observer, blocks: &BTreeMap<Slot, Vec<BlockHash>>) {
        if !self.enabled {
            return;
        }
        if self.until_ms.is_some_and(|t| kernel::now_ms() >= t) {
            return;
        }
        // harvest recent genuine traffic as raw material
        {
            let c = net.lock().unwrap();
            for rec in &c.taps[self.tap_cursor..] {
                if rec.from_node >= cfg.n {
                    continue;
                }
                match rec.from_iface {
                    Iface::A2A => {
                        self.recent_a2a.push(rec.bytes.as_ref().clone());
                        if self.recent_a2a.len() > 64 {
                            self.recent_a2a.remove(0);
                        }
                    }
                    Iface::Dissem => {
                        if self.recent_shreds.len() < 16 || kernel::now_ms() % 7 == 0 {
                            self.recent_shreds.push(rec.bytes.as_ref().clone());
                            if self.recent_shreds.len() > 32 {
                                self.recent_shreds.remove(0);
                            }
                        }
                    }
                    _ => {}
                }
            }
            self.tap_cursor = c.taps.len();
        }
        let src = cfg.n + 2; // an address outside the validator set
        let top_slot = blocks.keys().next_back().map_or(1, |s| s.inner());
        let known_block: Option<BlockId> = blocks.iter().next_back().map(|(s, h)| (*s, h[0].clone()));

        // ---- forged consensus messages (C09) ----
        if self.forger && !self.recent_a2a.is_empty() && kernel::choose(H, 3) != 0 {
            let k = 1 + kernel::choose(H, 4);
            for _ in 0..k {
                let a = &self.recent_a2a[kernel::choose(H, self.recent_a2a.len() as u64) as usize];
                let b = &self.recent_a2a[kernel::choose(H, self.recent_a2a.len() as u64) as usize];
                let is_cert = a.len() >= 4 && a[0] == 1;
                let other_ok = b.len() >= 4 && b[0] == a[0];
                if !other_ok {
                    continue;
                }
                let m = if is_cert { crate::wireworld::mutate_cert(a, b) } else { crate::wireworld::mutate_vote(a, b, cfg.n) };
                if let Some((bytes, class)) = m
                    && let Some(t) = Self::pick_target(cfg)
                {
                    kernel::fault("forged_consensus_message");
                    kernel::event(&format!("forge {class} -> n{t}"));
                    net.lock().unwrap().inject(port_of(src, Iface::A2A), port_of(t, Iface::A2A), bytes, Some(1 + kernel::choose(H, 50)));
                }
            }
        }
        if !self.hostile {
            return;
        }
        let Some(t) = Self::pick_target(cfg) else { return };
        // ---- all-to-all: garbage, truncations, structurally hostile values ----
        match kernel::choose(H, 6) {
            0 => {}
            1 => {
                let len = kernel::choose(H, 400) as usize;
                let bytes: Vec<u8> = (0..len).map(|_| kernel::choose(H, 256) as u8).collect();
                kernel::fault("hostile_a2a_garbage");
                net.lock().unwrap().inject(port_of(src, Iface::A2A), port_of(t, Iface::A2A), bytes, Some(1));
            }
            _ => {
                if let Some(a) = self.recent_a2a.last() {
                    let mut b = crate::net::corrupt(a);
                    if kernel::choose(H, 3) == 0 && b.len() >= 16 {
                        // absurd slot numbers
                        let s = [u64::MAX, u64::MAX - 1, 1 << 62, 36_000 + top_slot, 35_999 + top_slot][kernel::choose(H, 5) as usize];
                        wire::put_u64(&mut b, 8, s);
                    }
                    kernel::fault("hostile_a2a_mutated");
                    net.lock().unwrap().inject(port_of(src, Iface::A2A), port_of(t, Iface::A2A), b, Some(1));
                }
            }
        }
        // ---- shreds: mutated copies of genuine shreds (headers, indices, sizes) ----
        if kernel::choose(H, 3) != 0
            && let Some(s) = self.recent_shreds.last()
        {
            let mut b = s.clone();
            match kernel::choose(H, 7) {
                0 => b = crate::net::corrupt(&b),
                1 => wire::put_u64(&mut b, wire::SHRED_OFF_SLOT, [u64::MAX, top_slot + 1000, 0][kernel::choose(H, 3) as usize]),
                2 => wire::put_u64(&mut b, wire::SHRED_OFF_SLICE, kernel::choose(H, 1024)),
                3 => wire::put_u64(&mut b, wire::SHRED_OFF_INDEX, kernel::choose(H, 64)),
                4 => b[wire::SHRED_OFF_LAST] ^= 1,
                5 => b[wire::SHRED_OFF_TAG] ^= 1,
                _ => {
                    // odd-sized / truncated payload with a consistent length prefix
                    if let Some(l) = wire::shred_layout(&b)
                        && l.data_len > 3
                    {
                        let cut = 1 + kernel::choose(H, 3) as usize;
                        b.drain(l.sig_off - cut..l.sig_off);
                        wire::put_u64(&mut b, wire::SHRED_OFF_DATALEN, (l.data_len - cut) as u64);
                    }
                }
            }
            kernel::fault("hostile_shred");
            net.lock().unwrap().inject(port_of(src, Iface::Dissem), port_of(t, Iface::Dissem), b, Some(1));
        }
        // ---- repair requests to the responder ----
        if kernel::choose(H, 3) != 0 {
            let bid: BlockId = match (&known_block, kernel::choose(H, 3)) {
                (Some(b), 0 | 1) => b.clone(),
                _ => (Slot::new(kernel::choose(H, top_slot + 5)), wire::synth_hash(1, 2)),
            };
            let sender = match kernel::choose(H, 4) {
                0 => cfg.n as u64 + kernel::choose(H, 1000),
                1 => u64::MAX,
                _ => kernel::choose(H, cfg.n as u64),
            };
            let variant = kernel::choose(H, 3) as u32;
            let slice = if variant >= 1 { Some([0, 1, 1023, kernel::choose(H, 1024)][kernel::choose(H, 4) as usize]) } else { None };
            let shred = if variant == 2 { Some(kernel::choose(H, 64)) } else { None };
            let bytes = wire::repair_request_bytes(sender, variant, &bid, slice, shred);
            kernel::fault("hostile_repair_request");
            net.lock().unwrap().inject(port_of(src, Iface::RepairReq), port_of(t, Iface::RepairResp), bytes, Some(1));
        }
        // ---- unsolicited / mismatched repair responses to the requester ----
        if kernel::choose(H, 3) != 0 {
            let bid: BlockId = known_block.clone().unwrap_or((Slot::new(1), wire::synth_hash(1, 2)));
            let rt = match kernel::choose(H, 3) {
                0 => RepairRequestType::LastSliceRoot(bid.clone()),
                1 => RepairRequestType::SliceRoot(bid.clone(), si(kernel::choose(H, 1024) as usize)),
                _ => RepairRequestType::Shred(bid.clone(), si(kernel::choose(H, 8) as usize), ShredIndex::new(kernel::choose(H, 64) as usize).expect("idx")),
            };
            let root: alpenglow::crypto::merkle::SliceRoot = {
                let h: alpenglow::crypto::Hash = alpenglow::crypto::hash(b"hostile");
                h.into()
            };
            let proof: alpenglow::crypto::merkle::DoubleMerkleProof = {
                let h: alpenglow::crypto::Hash = alpenglow::crypto::hash(b"p");
                vec![h; kernel::choose(H, 34) as usize].into()
            };
            let resp = match kernel::choose(H, 4) {
                0 => RepairResponse::Nack(rt),
                1 => RepairResponse::LastSliceRoot(rt, si(kernel::choose(H, 1024) as usize), root, proof),
                2 => RepairResponse::SliceRoot(rt, root, proof),
                _ => match self.recent_shreds.last().and_then(|b| wire::decode_shred(b)) {
                    Some(s) => RepairResponse::Shred(rt, s),
                    None => RepairResponse::Nack(rt),
                },
            };
            if let Ok(bytes) = wincode::serialize(&resp)
                && bytes.len() <= 1500
            {
                kernel::fault("hostile_repair_response");
                net.lock().unwrap().inject(port_of(src, Iface::RepairResp), port_of(t, Iface::RepairReq), bytes, Some(1));
            }
        }
        // ---- client transactions: oversize, empty, maximal, to every node (queued until it leads) ----
        if kernel::choose(H, 2) == 1 {
            let len = match kernel::choose(H, 5) {
                0 => 0,
                1 => alpenglow::MAX_TRANSACTION_SIZE,
                2 => alpenglow::MAX_TRANSACTION_SIZE + 1,
                3 => 1400,
                _ => 513 + kernel::choose(H, 900) as usize,
            };
            let bytes = wincode::serialize(&Transaction(vec![0xEE; len])).expect("ser");
            if bytes.len() <= 1500 {
                if len > alpenglow::MAX_TRANSACTION_SIZE {
                    kernel::fault("hostile_oversize_transaction");
                } else {
                    kernel::fault("hostile_transaction");
                }
                let mut c = net.lock().unwrap();
                for t in Self::targets(cfg) {
                    c.inject(port_of(src, Iface::Tx), port_of(t, Iface::Tx), bytes.clone(), Some(1));
                }
            }
        }
        let _ = obs;
    }
}
