//! Hostile inputs (C10) and forged consensus messages (C09) on the cluster's interfaces.

use std::collections::BTreeMap;

use alpenglow::types::Slot;
use alpenglow::crypto::merkle::BlockHash;

use crate::cluster::{ClusterCfg, Profile};
use crate::net::SharedNet;
use crate::oracle::Observer;

pub struct Hostile {
    enabled: bool,
}

impl Hostile {
    pub fn new(_cfg: &ClusterCfg, profile: &Profile) -> Self {
        Self { enabled: profile.hostile || profile.forger }
    }

    pub fn tick(&mut self, _cfg: &ClusterCfg, _net: &SharedNet, _obs: &Observer, _blocks: &BTreeMap<Slot, Vec<BlockHash>>) {
        if !self.enabled {}
    }
}
