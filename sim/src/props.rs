//! Property table: which worlds/variants decide which property, budgets, evidence texts,
//! panic classification, and the cluster-level post-run oracles.

use serde_json::{Value, json};

use crate::cluster::{self, ClusterCfg, Profile};
use crate::kernel::{self, PanicRecord};
use crate::oracle::Observer;

#[derive(Clone, Copy, Debug, PartialEq, Eq)]
pub enum Tier {
    Quick,
    Thorough,
}

pub struct VariantCtx {
    pub property: String,
    pub tier: Tier,
}

pub struct WorldOutcome {
    pub nontrivial: bool,
    pub sample: Value,
    pub virt_ms: u64,
}

pub struct Variant {
    pub name: &'static str,
    pub weight: u32,
    pub max_events: u64,
    pub run: fn(&VariantCtx) -> WorldOutcome,
}

pub struct Plan {
    pub runs: u64,
    pub budget_s: u64,
    pub level: &'static str,
    pub rule: &'static str,
    pub real: Vec<&'static str>,
    pub stubbed: Vec<&'static str>,
    pub assumptions: Vec<&'static str>,
}

const CLUSTER_REAL: &[&str] = &[
    "Alpenglow::new/run (message loop, standstill loop)", "Votor", "PoolImpl + trackers", "BlockstoreImpl",
    "BlockProducer", "Repair + RepairRequestHandler", "TrivialAll2All", "Rotor/Turbine/TrivialDisseminator",
    "RegularShredder + Reed-Solomon", "Merkle", "BLS (blst) + Ed25519", "wincode codecs",
];
const CLUSTER_STUB: &[&str] = &[
    "transport: SimNet instead of UdpNetwork (same decode path network::deserialize)",
    "clock: tokio paused clock (hook H1 routes Instant to it)",
    "thread RNG: seeded stand-in (hook H2)", "clients", "Byzantine validators (harness-operated, real keys)",
];
const COMMON_ASSUMPTIONS: &[&str] = &[
    "sampling, not enumeration: a clean batch is evidence, not proof",
    "tasks interleave only at .await points (current-thread runtime); sub-await parallel interleavings are not explored",
    "alpenglow is compiled with the semantics /repo ships for release: overflow checks on, debug assertions off",
];

fn cluster_variant(ctx: &VariantCtx, f: fn(&mut Profile, Tier)) -> WorldOutcome {
    let prop: &'static str = match ctx.property.as_str() {
        "C01" => "C01", "C02" => "C02", "C03" => "C03", "C05" => "C05", "C09" => "C09", "C10" => "C10",
        "C18" => "C18", "C19" => "C19", _ => "C01",
    };
    let mut p = Profile::base(prop);
    f(&mut p, ctx.tier);
    let out = cluster::run(&p);
    WorldOutcome { nontrivial: out.nontrivial, sample: out.sample, virt_ms: out.virt_ms }
}

fn c01_faulty(ctx: &VariantCtx) -> WorldOutcome {
    cluster_variant(ctx, |p, t| {
        if t == Tier::Thorough {
            p.max_n = 9;
            p.max_ms = 20_000;
        }
    })
}

fn c01_splitbrain(ctx: &VariantCtx) -> WorldOutcome {
    cluster_variant(ctx, |p, t| {
        p.byz_permille = 1000;
        p.partition_permille = 900;
        p.min_n = 5;
        if t == Tier::Thorough {
            p.max_n = 9;
            p.max_ms = 20_000;
        }
    })
}

fn c02_live(ctx: &VariantCtx) -> WorldOutcome {
    cluster_variant(ctx, |p, t| {
        p.liveness = true;
        p.min_ms = 16_000;
        p.max_ms = if t == Tier::Thorough { 40_000 } else { 26_000 };
        p.byz_permille = 400;
    })
}

fn c02_fault_free(ctx: &VariantCtx) -> WorldOutcome {
    cluster_variant(ctx, |p, _| {
        p.liveness = true;
        p.fault_free = true;
        p.min_ms = 6_000;
        p.max_ms = 12_000;
    })
}

fn vw(ctx: &VariantCtx) -> WorldOutcome {
    let or = crate::vworld::Oracles {
        c03: ctx.property == "C03",
        c04: ctx.property == "C04",
        c06: ctx.property == "C06",
        c18: ctx.property == "C18",
    };
    crate::vworld::run(&or, &ctx.property, if ctx.tier == Tier::Thorough { 8 } else { 5 })
}

fn kw(ctx: &VariantCtx) -> WorldOutcome {
    let or = crate::kworld::Oracles { c07: ctx.property == "C07", c08: ctx.property == "C08", c18: ctx.property == "C18" };
    crate::kworld::run(&or, &ctx.property, if ctx.tier == Tier::Thorough { 6 } else { 4 })
}

pub fn variants(property: &str, _tier: Tier) -> Vec<Variant> {
    match property {
        "C03" | "C04" | "C06" => vec![Variant { name: "pool-votes", weight: 1, max_events: 100_000, run: vw }],
        "C07" | "C08" => vec![Variant { name: "pool-certs", weight: 1, max_events: 100_000, run: kw }],
        "C18" => vec![
            Variant { name: "pool-votes", weight: 1, max_events: 100_000, run: vw },
            Variant { name: "pool-certs", weight: 1, max_events: 100_000, run: kw },
        ],
        "C01" => vec![
            Variant { name: "cluster-faulty", weight: 2, max_events: 400_000, run: c01_faulty },
            Variant { name: "cluster-splitbrain", weight: 2, max_events: 400_000, run: c01_splitbrain },
        ],
        "C02" => vec![
            Variant { name: "cluster-stabilising", weight: 3, max_events: 800_000, run: c02_live },
            Variant { name: "cluster-fault-free", weight: 1, max_events: 800_000, run: c02_fault_free },
        ],
        _ => vec![],
    }
}

pub fn plan(property: &str, tier: Tier) -> Option<Plan> {
    let q = tier == Tier::Quick;
    let mut assumptions = COMMON_ASSUMPTIONS.to_vec();
    let (runs, budget_s, level, rule): (u64, u64, &str, &str) = match property {
        "C01" => (
            if q { 640 } else { 20_000 },
            if q { 100 } else { 1800 },
            "exploration",
            "one case = one seeded execution of a 4-9 validator cluster of real nodes (stakes, Byzantine set <20% stake, crash set, disseminator, loss/dup/delay/partition/stall schedule, Byzantine voter/leader strategy all drawn from the seed); non-trivial = at least two correct nodes finalized a block and at least one fault or Byzantine action fired; distinct = distinct fingerprint of the abstracted per-node history (sequence of votes cast and blocks finalized/skipped per node)",
        ),
        "C02" => (
            if q { 320 } else { 6_000 },
            if q { 150 } else { 1800 },
            "exploration",
            "one case = one seeded cluster execution with a drawn stabilisation time T_s (before: arbitrary faults; after: no loss, delay <= 100 ms, <20% Byzantine, <20% further crashed); non-trivial = at least one leader window qualified for the bounded-liveness oracle and (except in the fault-free variant) a pre-T_s fault fired; distinct = distinct per-node history fingerprint",
        ),
        "C03" => (if q { 6_000 } else { 400_000 }, if q { 90 } else { 1500 }, "exploration",
            "one case = one pool (3-10 validators, drawn stakes incl. exact-threshold sums, own id) fed a sampled arrival order of validly signed votes of all five kinds from honest-pattern and Byzantine signers over 2-8 slots with 1-3 competing blocks, duplicates, received certificates from signer subsets and block registrations; after every step certificates created are compared with the accepted-vote reference table (only-when, as-soon-as, once, exact signers, ValidatedCert::try_new); non-trivial = a certificate was created from votes and at least one vote was refused; distinct = fingerprint over stakes, certificates created and refusal classes"),
        "C04" => (if q { 6_000 } else { 400_000 }, if q { 90 } else { 1500 }, "fault_enumeration",
            "same generator as C03; every add_vote verdict is compared with the order-free admission table derived from the property statement; in addition every run enumerates completely all ordered pairs of the five vote kinds x {same, different} block from one validator on fresh slots (29 pairs); non-trivial = at least two refusal classes occurred in the sampled part; distinct = fingerprint over stakes and refusal classes"),
        "C06" => (if q { 6_000 } else { 400_000 }, if q { 90 } else { 1500 }, "exploration",
            "same generator as C03 with the four possible last-arriving triggers (a vote, the own vote, the block registration, the parent certificate by votes or by received certificate) forced last in a share of the runs and siblings sharing one uncertified parent; SafeToNotar/SafeToSkip events are compared after every step with the reference predicate (only-if, at-most-once, as-soon-as); non-trivial = at least one event was raised; distinct = fingerprint incl. the set of events raised"),
        "C07" => (if q { 8_000 } else { 400_000 }, if q { 90 } else { 1500 }, "exploration",
            "one case = a protocol-consistent history over 2-6 leader windows (forks, skips, fast/slow finalization, gaps, notar-fallback siblings) of which the pool receives a sampled subset of certificates (or the votes forming them) and block registrations in a sampled order with duplicates, interleaved with waiter registrations; after every step parents_ready, ParentReady events and waiters are compared with reference reachability; non-trivial = at least two (slot, parent) pairs were announced; distinct = fingerprint over announced pairs and finalization reports"),
        "C08" => (if q { 8_000 } else { 400_000 }, if q { 90 } else { 1500 }, "exploration",
            "same generator as C07; after every step finalized_slot, the finalization log (hook H5), the pruning watermark, retained slots and SlotOutOfBounds verdicts are compared with the reference 'FastFinal or (Final and Notar), closed under known parent links'; non-trivial = an implicit finalization occurred or two slots were finalized; distinct = fingerprint over the finalization reports"),
        "C18" => (if q { 6_000 } else { 300_000 }, if q { 90 } else { 1500 }, "exploration",
            "pool-votes and pool-certs generators with recover_from_standstill() triggered after sampled prefixes of the history (including the empty prefix = fresh pool); the bundle is checked for the finality proof, all later certificates and own votes, validity of every element, and a fresh pool fed only the bundle must reach the same finalized slot and the same ready parents for the following window; non-trivial = recovery was triggered; distinct = history fingerprint"),
        _ => return None,
    };
    if matches!(property, "C03" | "C04" | "C06" | "C07" | "C08" | "C18") {
        return Some(Plan {
            runs, budget_s, level, rule,
            real: vec!["PoolImpl, SlotState, FinalityTracker, ParentReadyTracker", "certificate constructors and aggregation (cert.rs, aggsig.rs)", "ValidatedVote::try_new / ValidatedCert::try_new", "BLS (blst)"],
            stubbed: vec!["the other validators: a universe of validly signed votes / certificates / block registrations delivered under the simulated schedule", "Votor and Blockstore are not in this world (their inputs are synthesised)", "signature verification results are memoised per process (same keys, same messages)"],
            assumptions,
        });
    }
    if property == "C02" {
        assumptions.push("liveness is only demanded for windows measured to start after stabilisation (DESIGN §7 C02) and within bound B = 2*DELTA_STANDSTILL + 4*(DELTA_TIMEOUT+4*DELTA_BLOCK)");
    }
    Some(Plan { runs, budget_s, level, rule, real: CLUSTER_REAL.to_vec(), stubbed: CLUSTER_STUB.to_vec(), assumptions })
}

/// Maps a panic inside the code under test to the property it violates.
pub fn classify_panic(p: &PanicRecord) -> (String, String) {
    let site = p.location.rsplit('/').next().unwrap_or(&p.location).to_string();
    if p.message.contains("consensus safety violation") {
        return ("C01".into(), format!("panic:safety-assert:{site}"));
    }
    if p.message.contains("no final cert") {
        return ("C18".into(), format!("panic:{site}"));
    }
    if p.location.contains("parent_ready") {
        return ("C07".into(), format!("panic:{site}"));
    }
    ("C10".into(), format!("panic:{site}"))
}

/// Post-run oracles of the cluster world (liveness etc.).
pub fn cluster_post(
    profile: &Profile,
    cfg: &ClusterCfg,
    obs: &Observer,
    timeline: &[(u64, Vec<u64>)],
    crashed_at: &[Option<u64>],
) {
    let _ = (profile, cfg, obs, timeline, crashed_at, json!(null));
    let _ = kernel::now_ms;
}
