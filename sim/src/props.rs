//! Property table: which worlds/variants decide which property, budgets, evidence texts,
//! panic classification, and the cluster-level post-run oracles.

use serde_json::{Value, json};

use crate::cluster::{self, ClusterCfg, Profile};
use crate::kernel::{self, PanicRecord};
use crate::oracle::Observer;

#[derive(Clone, Copy, Debug, PartialEq, Eq)]
pub enum Tier {
    Quick,
    Thorough,
}

pub struct VariantCtx {
    pub property: String,
    pub tier: Tier,
}

pub struct WorldOutcome {
    pub nontrivial: bool,
    pub sample: Value,
    pub virt_ms: u64,
}

pub struct Variant {
    pub name: &'static str,
    pub weight: u32,
    pub max_events: u64,
    pub run: fn(&VariantCtx) -> WorldOutcome,
}

pub struct Plan {
    pub runs: u64,
    pub budget_s: u64,
    pub level: &'static str,
    pub rule: &'static str,
    pub real: Vec<&'static str>,
    pub stubbed: Vec<&'static str>,
    pub assumptions: Vec<&'static str>,
}

const CLUSTER_REAL: &[&str] = &[
    "Alpenglow::new/run (message loop, standstill loop)", "Votor", "PoolImpl + trackers", "BlockstoreImpl",
    "BlockProducer", "Repair + RepairRequestHandler", "TrivialAll2All", "Rotor/Turbine/TrivialDisseminator",
    "RegularShredder + Reed-Solomon", "Merkle", "BLS (blst) + Ed25519", "wincode codecs",
];
const CLUSTER_STUB: &[&str] = &[
    "transport: SimNet instead of UdpNetwork (same decode path network::deserialize)",
    "clock: tokio paused clock (hook H1 routes Instant to it)",
    "thread RNG: seeded stand-in (hook H2)", "clients", "Byzantine validators (harness-operated, real keys)",
];
const COMMON_ASSUMPTIONS: &[&str] = &[
    "sampling, not enumeration: a clean batch is evidence, not proof",
    "tasks interleave only at .await points (current-thread runtime); sub-await parallel interleavings are not explored",
    "alpenglow is compiled with the semantics /repo ships for release: overflow checks on, debug assertions off",
];

fn cluster_variant(ctx: &VariantCtx, f: fn(&mut Profile, Tier)) -> WorldOutcome {
    let prop: &'static str = match ctx.property.as_str() {
        "C01" => "C01", "C02" => "C02", "C03" => "C03", "C05" => "C05", "C09" => "C09", "C10" => "C10",
        "C18" => "C18", "C19" => "C19", _ => "C01",
    };
    let mut p = Profile::base(prop);
    f(&mut p, ctx.tier);
    let out = cluster::run(&p);
    WorldOutcome { nontrivial: out.nontrivial, sample: out.sample, virt_ms: out.virt_ms }
}

fn c01_faulty(ctx: &VariantCtx) -> WorldOutcome {
    cluster_variant(ctx, |p, t| {
        if t == Tier::Thorough {
            p.max_n = 9;
            p.max_ms = 20_000;
        }
    })
}

fn c10_faulty(ctx: &VariantCtx) -> WorldOutcome {
    cluster_variant(ctx, |p, _| {
        p.partition_permille = 1000;
        p.isolate_bias = true;
        p.min_ms = 16_000;
        p.max_ms = 24_000;
    })
}

fn c01_splitbrain(ctx: &VariantCtx) -> WorldOutcome {
    cluster_variant(ctx, |p, t| {
        p.byz_permille = 1000;
        p.partition_permille = 900;
        p.min_n = 5;
        if t == Tier::Thorough {
            p.max_n = 9;
            p.max_ms = 20_000;
        }
    })
}

fn c02_live(ctx: &VariantCtx) -> WorldOutcome {
    cluster_variant(ctx, |p, t| {
        p.liveness = true;
        p.min_ms = 20_000;
        p.max_ms = if t == Tier::Thorough { 50_000 } else { 38_000 };
        p.max_n = 6;
        p.byz_permille = 400;
    })
}

fn c16_cluster(ctx: &VariantCtx) -> WorldOutcome {
    cluster_variant(ctx, |p, _| {
        p.fault_free = true;
        p.asym_delays = true;
        p.min_ms = 5_000;
        p.max_ms = 8_000;
        p.min_n = 4;
        p.max_n = 7;
    })
}

fn c18_cluster(ctx: &VariantCtx) -> WorldOutcome {
    cluster_variant(ctx, |p, _| {
        p.standstill = true;
        p.byz_permille = 0;
        p.crash_permille = 0;
        p.stall_permille = 0;
        p.partition_permille = 0;
        p.netfault_permille = 0;
        p.min_n = 4;
        p.max_n = 6;
    })
}

fn c02_lockstep(ctx: &VariantCtx) -> WorldOutcome {
    cluster_variant(ctx, |p, _| {
        p.liveness = true;
        p.fault_free = true;
        p.lockstep = true;
        p.min_ms = 6_000;
        p.max_ms = 10_000;
    })
}

fn c02_fault_free(ctx: &VariantCtx) -> WorldOutcome {
    cluster_variant(ctx, |p, _| {
        p.liveness = true;
        p.fault_free = true;
        p.min_ms = 6_000;
        p.max_ms = 12_000;
    })
}

fn vw(ctx: &VariantCtx) -> WorldOutcome {
    let or = crate::vworld::Oracles {
        c03: ctx.property == "C03",
        c04: ctx.property == "C04",
        c06: ctx.property == "C06",
        c18: ctx.property == "C18",
    };
    crate::vworld::run(&or, &ctx.property, if ctx.tier == Tier::Thorough { 8 } else { 5 })
}

fn kw(ctx: &VariantCtx) -> WorldOutcome {
    let or = crate::kworld::Oracles { c07: ctx.property == "C07", c08: ctx.property == "C08", c18: ctx.property == "C18" };
    crate::kworld::run(&or, &ctx.property, if ctx.tier == Tier::Thorough { 6 } else { 4 })
}

fn c11(_ctx: &VariantCtx) -> WorldOutcome {
    crate::dissem::c11_run()
}
fn c12(_ctx: &VariantCtx) -> WorldOutcome {
    crate::dissem::c12_run()
}
fn c13(ctx: &VariantCtx) -> WorldOutcome {
    crate::dissem::c13_run(if ctx.tier == Tier::Thorough { 40 } else { 8 })
}
fn c16(ctx: &VariantCtx) -> WorldOutcome {
    crate::dissem::c16_run(if ctx.tier == Tier::Thorough { 40 } else { 16 })
}

fn c17(ctx: &VariantCtx) -> WorldOutcome {
    crate::sampworld::c17_run(if ctx.tier == Tier::Thorough { 40 } else { 12 })
}

fn c10_transport(ctx: &VariantCtx) -> WorldOutcome {
    crate::netrecv::c10_transport(&ctx.property)
}

fn c14(ctx: &VariantCtx) -> WorldOutcome {
    crate::repairworld::run(&ctx.property, if ctx.tier == Tier::Thorough { 8 } else { 4 })
}
fn c15_pure(ctx: &VariantCtx) -> WorldOutcome {
    crate::repairworld::c15_pure(if ctx.tier == Tier::Thorough { 4096 } else { 1024 })
}

fn c05_cluster(ctx: &VariantCtx) -> WorldOutcome {
    cluster_variant(ctx, |p, t| {
        p.byz_permille = 800;
        p.partition_permille = 600;
        if t == Tier::Thorough {
            p.max_n = 9;
            p.max_ms = 20_000;
        }
    })
}
fn c05_solo(ctx: &VariantCtx) -> WorldOutcome {
    crate::soloworld::run(if ctx.tier == Tier::Thorough { 3 } else { 3 }, false)
}
fn c02_solo(_ctx: &VariantCtx) -> WorldOutcome {
    crate::soloworld::run(3, true)
}
fn c10_hostile(ctx: &VariantCtx) -> WorldOutcome {
    cluster_variant(ctx, |p, t| {
        p.hostile = true;
        p.forger = true;
        p.corrupt_permille = 400;
        p.byz_permille = 800;
        p.max_n = 6;
        p.min_ms = 6_000;
        p.max_ms = if t == Tier::Thorough { 20_000 } else { 12_000 };
    })
}
fn c10_hostile_then_live(ctx: &VariantCtx) -> WorldOutcome {
    cluster_variant(ctx, |p, t| {
        p.hostile = true;
        p.forger = true;
        p.liveness = true;
        p.corrupt_permille = 400;
        p.byz_permille = 700;
        p.max_n = 6;
        p.min_ms = 36_000;
        p.max_ms = if t == Tier::Thorough { 60_000 } else { 44_000 };
    })
}
fn c09_forge(_ctx: &VariantCtx) -> WorldOutcome {
    crate::wireworld::c09_forge()
}
fn c19_wire(ctx: &VariantCtx) -> WorldOutcome {
    crate::wireworld::c19_wire(if ctx.tier == Tier::Thorough { 2048 } else { 2048 })
}
fn c19_cluster(ctx: &VariantCtx) -> WorldOutcome {
    cluster_variant(ctx, |p, _| {
        p.max_ms = 8_000;
        p.corrupt_permille = 500;
    })
}
fn c09_cluster(ctx: &VariantCtx) -> WorldOutcome {
    cluster_variant(ctx, |p, _| {
        p.max_ms = 9_000;
        p.forger = true;
        p.corrupt_permille = 300;
    })
}

pub fn variants(property: &str, _tier: Tier) -> Vec<Variant> {
    match property {
        "C05" => vec![
            Variant { name: "cluster-vote-rules", weight: 1, max_events: 400_000, run: c05_cluster },
            Variant { name: "solo-node-adversarial-environment", weight: 3, max_events: 400_000, run: c05_solo },
        ],
        "C10" => vec![
            Variant { name: "cluster-hostile", weight: 3, max_events: 400_000, run: c10_hostile },
            Variant { name: "cluster-hostile-then-live", weight: 1, max_events: 800_000, run: c10_hostile_then_live },
            Variant { name: "transport-receive", weight: 16, max_events: 100_000, run: c10_transport },
            // no hostile inputs, but the fault schedules of C01 (partitions, crashes, stalls, Byzantine
            // voters and leaders): a node task that dies there is a C10 failure just the same
            Variant { name: "cluster-faulty", weight: 2, max_events: 400_000, run: c10_faulty },
        ],
        "C09" => vec![
            Variant { name: "forge", weight: 24, max_events: 100_000, run: c09_forge },
            Variant { name: "cluster-forger", weight: 1, max_events: 400_000, run: c09_cluster },
        ],
        "C19" => vec![
            Variant { name: "wire", weight: 24, max_events: 100_000, run: c19_wire },
            Variant { name: "cluster-monitor", weight: 1, max_events: 400_000, run: c19_cluster },
            Variant { name: "transport-receive", weight: 3, max_events: 100_000, run: c10_transport },
        ],
        "C14" => vec![Variant { name: "repair", weight: 1, max_events: 150_000, run: c14 }],
        "C15" => vec![
            Variant { name: "repair", weight: 1, max_events: 150_000, run: c14 },
            Variant { name: "merkle-mutation", weight: 3, max_events: 100_000, run: c15_pure },
        ],
        "C11" => vec![Variant { name: "dissem-erasure", weight: 1, max_events: 100_000, run: c11 }],
        "C12" => vec![
            Variant { name: "dissem-binding", weight: 7, max_events: 100_000, run: c12 },
            Variant { name: "repair", weight: 1, max_events: 150_000, run: c14 },
        ],
        "C13" => vec![Variant { name: "dissem-blockstore", weight: 1, max_events: 100_000, run: c13 }],
        "C16" => vec![
            Variant { name: "dissem-routing", weight: 60, max_events: 400_000, run: c16 },
            Variant { name: "cluster-fault-free-delivery", weight: 1, max_events: 800_000, run: c16_cluster },
        ],
        "C17" => vec![Variant { name: "sampler-callers", weight: 1, max_events: 400_000, run: c17 }],
        "C03" | "C04" | "C06" => vec![Variant { name: "pool-votes", weight: 1, max_events: 100_000, run: vw }],
        "C07" | "C08" => vec![Variant { name: "pool-certs", weight: 1, max_events: 100_000, run: kw }],
        "C18" => vec![
            Variant { name: "pool-votes", weight: 24, max_events: 100_000, run: vw },
            Variant { name: "pool-certs", weight: 24, max_events: 100_000, run: kw },
            Variant { name: "cluster-standstill", weight: 1, max_events: 800_000, run: c18_cluster },
        ],
        "C01" => vec![
            Variant { name: "cluster-faulty", weight: 2, max_events: 400_000, run: c01_faulty },
            Variant { name: "cluster-splitbrain", weight: 2, max_events: 400_000, run: c01_splitbrain },
        ],
        "C02" => vec![
            Variant { name: "cluster-stabilising", weight: 3, max_events: 800_000, run: c02_live },
            Variant { name: "cluster-fault-free", weight: 1, max_events: 800_000, run: c02_fault_free },
            Variant { name: "cluster-lockstep", weight: 1, max_events: 800_000, run: c02_lockstep },
            Variant { name: "solo-node-honest-environment", weight: 5, max_events: 400_000, run: c02_solo },
        ],
        _ => vec![],
    }
}

pub fn plan(property: &str, tier: Tier) -> Option<Plan> {
    let q = tier == Tier::Quick;
    let mut assumptions = COMMON_ASSUMPTIONS.to_vec();
    let (runs, budget_s, level, rule): (u64, u64, &str, &str) = match property {
        "C01" => (
            if q { 320 } else { 20_000 },
            if q { 240 } else { 1800 },
            "exploration",
            "one case = one seeded execution of a 4-9 validator cluster of real nodes (stakes, Byzantine set <20% stake, crash set, disseminator, loss/dup/delay/partition/stall schedule, Byzantine voter/leader strategy all drawn from the seed); non-trivial = at least two correct nodes finalized a block and at least one fault or Byzantine action fired; distinct = distinct fingerprint of the abstracted per-node history (sequence of votes cast and blocks finalized/skipped per node)",
        ),
        "C02" => (
            if q { 600 } else { 24_000 },
            if q { 480 } else { 1800 },
            "exploration",
            "two kinds of case; (solo-node-honest-environment, 3 of 4 runs) one real node among validators that all follow the protocol (one block per slot extending the chain, delivered within 100 ms of its nominal time, every other validator votes notar and final within the delay bound, some of them slow so that blocks overtake their parents' certificates): the node must notarize and vote to finalize every block and never cast a skip or fallback vote; (cluster, 1 of 4 runs) one case = one seeded cluster execution with a drawn stabilisation time T_s (before: arbitrary faults; after: no loss, per-message delay <= 100 ms or anywhere up to 150/200/250 ms = DELTA, <20% Byzantine incl. leaders that equivocate or hand the next leader a block nobody else gets, <20% further crashed); non-trivial = at least one leader window qualified for the bounded-liveness oracle and (except in the fault-free variant) a pre-T_s fault fired; distinct = distinct per-node history fingerprint",
        ),
        "C03" => (if q { 6_000 } else { 400_000 }, if q { 90 } else { 1500 }, "exploration",
            "one case = one pool (3-10 validators, drawn stakes incl. exact-threshold sums, own id) fed a sampled arrival order of validly signed votes of all five kinds from honest-pattern and Byzantine signers over 2-8 slots with 1-3 competing blocks, duplicates, received certificates from signer subsets and block registrations; after every step certificates created are compared with the accepted-vote reference table (only-when, as-soon-as, once, exact signers, ValidatedCert::try_new); non-trivial = a certificate was created from votes and at least one vote was refused; distinct = fingerprint over stakes, certificates created and refusal classes"),
        "C04" => (if q { 6_000 } else { 400_000 }, if q { 90 } else { 1500 }, "fault_enumeration",
            "same generator as C03; every add_vote verdict is compared with the order-free admission table derived from the property statement; in addition every run enumerates completely all ordered pairs of the five vote kinds x {same, different} block from one validator on fresh slots (29 pairs); non-trivial = at least two refusal classes occurred in the sampled part; distinct = fingerprint over stakes and refusal classes"),
        "C06" => (if q { 6_000 } else { 400_000 }, if q { 90 } else { 1500 }, "exploration",
            "same generator as C03 with the four possible last-arriving triggers (a vote, the own vote, the block registration, the parent certificate by votes or by received certificate) forced last in a share of the runs and siblings sharing one uncertified parent; SafeToNotar/SafeToSkip events are compared after every step with the reference predicate (only-if, at-most-once, as-soon-as); non-trivial = at least one event was raised; distinct = fingerprint incl. the set of events raised"),
        "C07" => (if q { 8_000 } else { 400_000 }, if q { 90 } else { 1500 }, "exploration",
            "one case = a protocol-consistent history over 2-6 leader windows (forks, skips, fast/slow finalization, gaps, notar-fallback siblings) of which the pool receives a sampled subset of certificates (or the votes forming them) and block registrations in a sampled order with duplicates, interleaved with waiter registrations; after every step parents_ready, ParentReady events and waiters are compared with reference reachability; non-trivial = at least two (slot, parent) pairs were announced; distinct = fingerprint over announced pairs and finalization reports"),
        "C08" => (if q { 8_000 } else { 400_000 }, if q { 90 } else { 1500 }, "exploration",
            "same generator as C07; after every step finalized_slot, the finalization log (hook H5), the pruning watermark, retained slots and SlotOutOfBounds verdicts are compared with the reference 'FastFinal or (Final and Notar), closed under known parent links'; non-trivial = an implicit finalization occurred or two slots were finalized; distinct = fingerprint over the finalization reports"),
        "C18" => (if q { 6_000 } else { 300_000 }, if q { 90 } else { 1500 }, "exploration",
            "three variants; (cluster-standstill, 1 of 49 runs) 4-6 real nodes, a quiet start, then every node on its own (or two sides both short of 60%) for 12-30 s, then the heal: every node whose finalized slot (>= 1) does not advance must re-broadcast a finalization certificate for that slot every DELTA_STANDSTILL (window 9.4-12.5 s after the last progress, repeated), i.e. the real standstill loop fires and Votor forwards the bundle; (pool worlds) pool-votes and pool-certs generators with recover_from_standstill() triggered after sampled prefixes of the history (including the empty prefix = fresh pool); the bundle is checked for the finality proof, all later certificates and own votes, validity of every element, and a fresh pool fed only the bundle must reach the same finalized slot and the same ready parents for the following window; non-trivial = recovery was triggered; distinct = history fingerprint"),
        "C11" => (if q { 20_000 } else { 1_000_000 }, if q { 60 } else { 1200 }, "exploration",
            "one case = one slice (shredder variant, boundary-biased payload length over every residue of the padding scheme incl. 0, max and max+1, with/without parent) shredded by the leader and sent over a lossy, reordering, duplicating datagram network to a receiver that stores shreds by index and calls deshred on every arrival; deshred must succeed iff >=32 distinct shreds arrived, reproduce the slice and all 64 shreds bit-for-bit, each regenerated shred validating under the signed root, and leave the array untouched on error; non-trivial = at least one shred arrived; distinct = (shredder, length, parent, arrivals kept)"),
        "C12" => (if q { 8_000 } else { 300_000 }, if q { 60 } else { 1200 }, "exploration",
            "two variants; (repair, 1 of 8 runs) the repair world of C14 with peers that alter fields the leader's signature does not cover (data/coding tag flipped on authentic shreds) or answer wrongly: a correct leader whose only signed material is the block being repaired must never be reported as misbehaving by the requester; (dissem-binding) one case = an honest leader's block with a tamperer on the path applying structured mutations (every header field, shred index, payload byte/length, proof element/length, signature, data/coding tag, cross-slot/slice replay, splice) with and without a cached commitment at the receiver, followed by the genuine shreds; or a Byzantine leader signing two commitments for one slice in both arrival orders; the receiver is the message loop's validation path on a real BlockstoreImpl; non-trivial = at least one tampered shred was delivered; distinct = set of mutation classes delivered x mode"),
        "C13" => (if q { 4_000 } else { 200_000 }, if q { 60 } else { 1200 }, "exploration",
            "one case = one block shape (1..K slices, empty to full slices, optional optimistic-handover parent switch, or one of eight malformations signed by the leader) delivered to a real BlockstoreImpl with >=32 shreds of every slice in a sampled order with duplicates and conflicting material placed anywhere; exactly-once events, hash/parent, serving of every shred/root/proof, fast path equality, and exactly one InvalidBlock for malformed blocks are checked; distinct = (malformation, slices, ingest outcome histogram)"),
        "C16" => (if q { 6_000 } else { 120_000 }, if q { 60 } else { 1200 }, "exploration",
            "two variants; (cluster-fault-free-delivery, 1 of 61 runs) 4-7 real nodes with their real message loops, fault-free, links with unequal constant extra delays (0-175 ms): every shred of every slice of every block must be addressed to every validator other than the leader (a relay must forward its shred even when it arrives after the 32 others that already let it reconstruct the slice); (dissem-routing) one case = 2..40 independently constructed disseminator instances (Trivial, Rotor::new, Rotor::new_fa1, Turbine with fanout 1..n or 200; constructed at different simulated times in a sampled order, caches cold/warm, sampled call order) on a loss-free network with arbitrary delays; a leader sends every shred of a block; every other validator must receive each shred, exactly once under Turbine/Trivial and through at most one relay broadcast under Rotor; non-trivial = n >= 3; distinct = (disseminator, n, stakes, slot)"),
        "C14" => (if q { 4_000 } else { 120_000 }, if q { 120 } else { 1500 }, "exploration",
            "one case = one real Repair::repair_loop repairing one 1..K-slice block (honest or Byzantine leader, optionally with dissemination data already present) from 2-7 peers that are real RepairRequestHandlers with or without the block, silent nodes, or liars (wrong variant, aliased/wrong indices, wrong root, mutated proofs, other block's material, alternative last-flag signing, duplicates, unsolicited answers, delays) over a network with loss/duplication/stragglers until a drawn stabilisation time; checked: announced/stored block hashes to the requested id, no panic, dissemination data untouched, repair completes within 30*REPAIR_TIMEOUT after stabilisation while honest peers holding the block carry >= 30% of the peers' stake, and an honest responder answers every request shape with verifying data or a NACK; non-trivial = a liar or an honest holder took part; distinct = (roles, slices, liar fault kinds fired, outcome)"),
        "C15" => (if q { 20_000 } else { 600_000 }, if q { 90 } else { 1500 }, "exploration",
            "two variants: (1) the repair world of C14 with liars presenting aliased indices (index + k*2^height), non-last slices as last, mutated proofs; the requester must never request a slice beyond the block's true last slice; (2) trees of 1..1024 (thorough 4096) leaves incl. powers of two +-1: every created proof verifies, check_proof_last holds exactly for the last leaf, and every mutation (leaf, swapped leaf, index inside/beyond width/huge, root bit, proof element bit, proof length 0..33) must fail both verifiers without panicking; distinct = (leaf count, index, mutation classes)"),
        "C17" => (if q { 20_000 } else { 600_000 }, if q { 120 } else { 1500 }, "exploration",
            "one case = one validator set (1..12, thorough 1..40 validators; equal / skewed / whale-under-threshold / exact-threshold / heavy-tail stakes, optionally one validator holding exactly j/k of the stake or a zero-stake validator) and one shipped committee strategy (IID stake-weighted, IID uniform, IID Turbine-work, decaying acceptance with max_samples 1..3, partition, Fait-Accompli 1 with partition and with stake-weighted fallback, Fait-Accompli 2) with k in 1..64 seats, shared by 1-3 caller threads that each draw 1-3 committees from their own seeded random source; the callers are real threads parked at every scheduling point (hook H7 ahead of each lock acquisition of the sampler's shared counters, start and end of every call) and released one at a time by the seeded scheduler; checked: construction does not panic, quorum_size = k, every committee has exactly k members of the set, no zero-stake member, >= floor(f*k) seats per validator under the Fait-Accompli samplers, <= ceil(max_samples) seats under decaying acceptance, and every committee equals what a private instance of the same strategy returns for the same validator set and random source (function of set and random source only, whatever the other callers do); distinct = (strategy, n, k, stake family, callers, context switches, scheduling sites)"),
        "C05" => (if q { 400 } else { 20_000 }, if q { 240 } else { 1800 }, "exploration",
            "one case = one seeded cluster execution (as C01: faults, partitions, <20% Byzantine equivocating voters and leaders, several blocks per slot); every vote each correct node broadcasts is replayed in broadcast order against the voting rules: never a slashable combination with its own earlier votes, finalize only after notarizing and only for a block that has a notarization certificate, fallback votes only after an initial vote and only once the stake they require had been voted anywhere, notar only for a block whose parent is the block it notarized in the preceding slot or (window-first slot) a certified, skip-connected parent; non-trivial as C01; distinct = per-node history fingerprint"),
        "C10" => (if q { 960 } else { 60_000 }, if q { 540 } else { 1800 }, "exploration",
            "four variants; (cluster-faulty, 1 of 11 runs) the fault schedules of C01 without hostile inputs - a node task that panics under partitions, crashes, stalls or Byzantine validators is a C10 failure too; (transport-receive, 8 of 11 runs) one script of 5-49 datagrams - valid messages of one of the five interface types interleaved with empty, truncated, trailing-byte, garbage, other-interface, absurd-prefix, all-ones and oversize datagrams, ending with a valid one - is fed to the crate's own receive loops, SimulatedNetwork::receive on its in-process core and UdpNetwork::receive on real loopback sockets (not schedule-controlled; only timing-independent facts are demanded): receive() must never fail or panic and must hand out exactly the decodable datagrams; (cluster variants, 1 of 5 runs) one case = one seeded cluster execution with hostile generators on all five interfaces interleaved with normal traffic (garbage and mutated consensus messages with absurd slots, forged votes/certificates, mutated shreds incl. odd sizes and flipped flags, repair requests with unknown senders/blocks/indices, unsolicited repair responses of every variant with proofs of length 0..33, oversize/empty/maximal transactions) plus a Byzantine leader signing malformed blocks (parent not earlier, first slice without parent, undecodable transactions, contradictory last flags, parent switched twice / to itself, slices after the last); checked: no panic located in the repository's sources in any task of a correct node, and (variant cluster-hostile-then-live) after the hostile phase every live correct node keeps finalizing within the C02 bound; non-trivial as C01; distinct = per-node history fingerprint"),
        "C09" => (if q { 4_000 } else { 200_000 }, if q { 120 } else { 1500 }, "exploration",
            "two variants: (1) forge: valid votes and certificates (3-10 validators, drawn stakes, signer subsets just below/at/above 60%/80%, mixed certificates incl. a signer in both halves) are altered on the wire by chains of 1-3 structured mutations (kind, slot, hash, signer, signer set, bitmask length/word count, out-of-range signer bit, signature bytes, foreign signature, halves swapped/moved, inflated declared stake) and offered to ValidatedVote/ValidatedCert::try_new; the verdict must equal an independent one (signature bytes equal the honest signature/aggregation of exactly the named signers over exactly this kind/slot/hash, bitmask length = validator count, distinct stake >= threshold) and never panic; (2) cluster-forger: the same forgeries plus byte corruption are injected at real nodes while normal traffic flows and every certificate a correct node (re-)broadcasts must validate; non-trivial = at least one mutation applied; distinct = set of mutation classes x outcome counts"),
        "C19" => (if q { 6_000 } else { 300_000 }, if q { 120 } else { 1500 }, "exploration",
            "three variants: (3) transport-receive: the datagram scripts of C10's transport variant (valid messages interleaved with trailing-byte, truncated, oversize and foreign datagrams) against SimulatedNetwork::receive and UdpNetwork::receive on loopback: exactly the datagrams that decode exactly may come out; (1) wire: every message kind (five vote kinds; five certificate types for 1..2048 validators with the highest index set and both halves populated; shreds of all four shredders at boundary payload sizes; repair requests/responses with proofs for 1..1024 slices; transactions 0..512 bytes) is encoded, checked <= 1500 bytes, decoded and re-encoded identically, rejected with a trailing byte, rejected with out-of-range slice/shred indices, and corrupted/truncated/extended at byte level (decoder must reject or yield a stable re-encoding, never panic); plus arbitrary byte strings offered to all five decoders; (2) cluster-monitor: the same size and round-trip monitor on every message real nodes emit during cluster runs with receiver-side byte corruption; distinct = (kind, encoded sizes)"),
        _ => return None,
    };
    if matches!(property, "C09" | "C19") {
        return Some(Plan {
            runs, budget_s, level, rule,
            real: vec!["wincode codecs of Vote/Cert/ConsensusMessage/Shred/RepairRequest/RepairResponse/Transaction, network::deserialize", "ValidatedVote::try_new, ValidatedCert::try_new, certificate constructors, AggregateSignature", "all four shredders", "cluster variant: full nodes as in C01"],
            stubbed: vec!["the transport carrying the (mutated) bytes", "in the cluster variant: as C01"],
            assumptions,
        });
    }
    if matches!(property, "C14" | "C15") {
        return Some(Plan {
            runs, budget_s, level, rule,
            real: vec!["Repair::repair_loop / handle_response / send_request", "RepairRequestHandler::run", "BlockstoreImpl (requester and honest responders)", "PoolImpl (add_block)", "MerkleTree::check_proof / check_proof_last / create_proof", "ValidatedShred::try_new, RegularShredder"],
            stubbed: vec!["transport (SimNet) and clock (tokio paused, hook H1)", "peer choice RNG (hook H2)", "liar and silent peers are harness tasks", "the block's leader (harness shreds and signs with the leader's real key)"],
            assumptions,
        });
    }
    if property == "C17" {
        let mut assumptions = assumptions;
        assumptions.push("caller threads interleave only at the scheduling points of hook H7 (ahead of every acquisition of the sampler's only lock) and at call boundaries; all state shared between callers is guarded by that lock, so finer interleavings are equivalent to one of these");
        assumptions.push("the sequential reference is the same strategy code driven by a single caller; the size/membership/seat-count guarantees are checked independently of it");
        return Some(Plan {
            runs, budget_s, level, rule,
            real: vec!["every QuorumSamplingStrategy/SamplingStrategy in disseminator/rotor/sampling_strategy.rs (constructors and sampling), rand's StdRng/WeightedIndex", "real OS threads as callers sharing one sampler instance"],
            stubbed: vec!["the thread scheduler: callers are parked at scheduling points and released one at a time by the seeded scheduler", "Rotor / the simulations binary as callers (replaced by harness caller threads)"],
            assumptions,
        });
    }
    if matches!(property, "C11" | "C12" | "C13" | "C16") {
        return Some(Plan {
            runs, budget_s, level, rule,
            real: vec!["RegularShredder / CodingOnlyShredder / AontShredder / PetsShredder, Reed-Solomon, Merkle", "ValidatedShred::try_new, SliceCommitment", "BlockstoreImpl + SlotBlockData", "Rotor (both constructors), Turbine, TrivialDisseminator, all samplers they use", "Ed25519"],
            stubbed: vec!["the datagram network between leader and receivers (schedule of losses, reorderings, duplications, tampering)", "receivers run the body of Alpenglow::handle_disseminator_shred re-stated in the harness (cached commitment -> try_new -> add_shred_from_dissemination)", "AONT/PETS key randomness: seeded stand-in (hook H2)"],
            assumptions,
        });
    }
    if matches!(property, "C03" | "C04" | "C06" | "C07" | "C08" | "C18") {
        return Some(Plan {
            runs, budget_s, level, rule,
            real: vec!["PoolImpl, SlotState, FinalityTracker, ParentReadyTracker", "certificate constructors and aggregation (cert.rs, aggsig.rs)", "ValidatedVote::try_new / ValidatedCert::try_new", "BLS (blst)"],
            stubbed: vec!["the other validators: a universe of validly signed votes / certificates / block registrations delivered under the simulated schedule", "Votor and Blockstore are not in this world (their inputs are synthesised)", "signature verification results are memoised per process (same keys, same messages)"],
            assumptions,
        });
    }
    if property == "C10" {
        assumptions.push("panics are attributed by source location: only panics inside /repo/src count; a panic elsewhere is a harness error (exit 2)");
        assumptions.push("post-hostile liveness uses the C02 progress bound and preconditions");
    }
    if property == "C02" {
        assumptions.push("liveness is only demanded for windows measured to start after stabilisation (DESIGN §7 C02) and within bound B = 2*DELTA_STANDSTILL + 4*(DELTA_TIMEOUT+4*DELTA_BLOCK)");
    }
    Some(Plan { runs, budget_s, level, rule, real: CLUSTER_REAL.to_vec(), stubbed: CLUSTER_STUB.to_vec(), assumptions })
}

/// C18 in the cluster: a live node whose finalized slot (>= 1) does not advance must re-broadcast the
/// certificates proving that slot every DELTA_STANDSTILL (the real standstill loop polls every
/// DELTA_BLOCK; Votor forwards the pool's bundle).
fn standstill_post(cfg: &ClusterCfg, obs: &Observer, timeline: &[(u64, Vec<u64>)]) {
    let n = cfg.n;
    let mut checked = 0u64;
    for i in 0..n {
        if cfg.roles[i] != cluster::Role::Correct {
            continue;
        }
        // maximal intervals without progress
        let mut k = 0;
        while k < timeline.len() {
            let f = timeline[k].1[i];
            let t0 = timeline[k].0;
            let mut e = k;
            while e + 1 < timeline.len() && timeline[e + 1].1[i] == f {
                e += 1;
            }
            let t1 = timeline[e].0;
            k = e + 1;
            if f == 0 {
                continue;
            }
            // expected triggers at t0 + j * (10.0 .. 10.8 s); allow the sampling step and one poll more
            let mut j = 1u64;
            while t0 + j * 10_000 + 2_500 <= t1 {
                let lo = t0 + j * 10_000 - 600;
                let hi = t0 + j * 10_000 + 2_500 + (j - 1) * 800;
                let proved = obs.certs.iter().any(|c| {
                    c.from == i && c.at_ms >= lo && c.at_ms <= hi && c.slot.inner() == f && matches!(c.kind, crate::oracle::CertKind::Final | crate::oracle::CertKind::FastFinal)
                });
                checked += 1;
                if !proved {
                    kernel::violation(
                        "C18",
                        "cluster:no-standstill-rebroadcast",
                        format!(
                            "node {i} stayed at finalized slot {f} from {t0} ms to {t1} ms but did not re-broadcast a finalization certificate for it between {lo} and {hi} ms (standstill recovery #{j}); certificates it sent for that slot: {:?}",
                            obs.certs.iter().filter(|c| c.from == i && c.slot.inner() == f).map(|c| (c.at_ms, format!("{:?}", c.kind))).collect::<Vec<_>>()
                        ),
                    );
                    return;
                }
                j += 1;
            }
        }
    }
    kernel::probe_n("c18_standstill_rebroadcasts_checked", checked);
}

/// C16 in the cluster (fault-free, real nodes and their real message loops): every shred a leader
/// sends reaches every other validator at least once, whatever the (loss-free) delays.
fn delivery_post(cfg: &ClusterCfg, obs: &Observer) {
    use std::collections::{BTreeMap, BTreeSet};
    let n = cfg.n;
    // (slot, slice) -> shred index -> nodes it was addressed to
    let mut seen: BTreeMap<(u64, u64), BTreeMap<u64, BTreeSet<usize>>> = BTreeMap::new();
    {
        let c = obs.net.lock().unwrap();
        for t in c.taps.iter() {
            if t.from_iface != crate::net::Iface::Dissem || t.bytes.len() < crate::wire::SHRED_OFF_DATALEN {
                continue;
            }
            let slot = crate::wire::get_u64(&t.bytes, crate::wire::SHRED_OFF_SLOT);
            let slice = crate::wire::get_u64(&t.bytes, crate::wire::SHRED_OFF_SLICE);
            let idx = crate::wire::get_u64(&t.bytes, crate::wire::SHRED_OFF_INDEX);
            let e = seen.entry((slot, slice)).or_default().entry(idx).or_default();
            for p in &t.to_ports {
                e.insert(crate::net::node_of(*p));
            }
        }
    }
    let max_slot = seen.keys().map(|k| k.0).max().unwrap_or(0);
    let mut checked = 0u64;
    for ((slot, slice), by_idx) in &seen {
        // blocks still in flight at the end of the run are not judged
        if *slot + 8 > max_slot || *slot == 0 {
            continue;
        }
        let leader = ((slot / 4) % n as u64) as usize;
        for idx in 0..alpenglow::shredder::TOTAL_SHREDS as u64 {
            let got = by_idx.get(&idx).cloned().unwrap_or_default();
            for v in 0..n {
                if v == leader {
                    continue;
                }
                checked += 1;
                if !got.contains(&v) {
                    kernel::violation(
                        "C16",
                        format!("cluster:shred-not-delivered:{:?}", cfg.dissem).split('(').next().unwrap_or("cluster:shred-not-delivered").to_string(),
                        format!(
                            "fault-free run with {:?} (n={n}, link delays {:?}): shred {idx} of slice {slice} in slot {slot} (leader {leader}) was never sent to validator {v}; it was sent to {got:?}",
                            cfg.dissem, cfg.net.link_extra_ms
                        ),
                    );
                    return;
                }
            }
        }
    }
    kernel::probe_n("c16_cluster_shred_deliveries_checked", checked);
}

/// Maps a panic inside the code under test to the property it violates.
pub fn classify_panic(p: &PanicRecord, checked: &str) -> (String, String) {
    let site = p.location.rsplit('/').next().unwrap_or(&p.location).to_string();
    // component worlds call the code under test directly: a panic there is a failure of the
    // property the world decides (e.g. a disseminator that cannot be constructed for some stakes)
    if matches!(checked, "C16" | "C17" | "C11" | "C12" | "C13" | "C15" | "C19") {
        return (checked.to_string(), format!("panic:{site}"));
    }
    if p.message.contains("consensus safety violation") {
        return ("C01".into(), format!("panic:safety-assert:{site}"));
    }
    if p.message.contains("no final cert") {
        return ("C18".into(), format!("panic:{site}"));
    }
    if p.location.contains("parent_ready") {
        return ("C07".into(), format!("panic:{site}"));
    }
    ("C10".into(), format!("panic:{site}"))
}

/// Bound for "keeps advancing": 2*DELTA_STANDSTILL + 4*(DELTA_TIMEOUT + 4*DELTA_BLOCK), in ms.
pub const LIVENESS_BOUND_MS: u64 = 2 * 10_000 + 4 * (750 + 4 * 400);
/// Slack after a window's last slot by which its blocks must be finalized everywhere.
pub const WINDOW_FINALITY_SLACK_MS: u64 = 750 + 4 * 400;

/// Post-run oracles of the cluster world (bounded liveness after stabilisation, C02).
pub fn cluster_post(
    profile: &Profile,
    cfg: &ClusterCfg,
    obs: &Observer,
    timeline: &[(u64, Vec<u64>)],
    crashed_at: &[Option<u64>],
) {
    // a run cut short by the event cap or the wall-clock watchdog (transport emptied at that instant)
    // says nothing about bounded liveness
    if kernel::capped() {
        kernel::probe("liveness_oracles_skipped_run_capped");
        return;
    }
    if profile.standstill {
        standstill_post(cfg, obs, timeline);
        return;
    }
    if profile.asym_delays {
        delivery_post(cfg, obs);
        return;
    }
    if !profile.liveness {
        return;
    }
    let Some(ts) = cfg.net.stabilise_at_ms else { return };
    let n = cfg.n;
    let end = timeline.last().map_or(0, |t| t.0);
    let live: Vec<usize> = (0..n).filter(|i| cfg.roles[*i] == cluster::Role::Correct && crashed_at[*i].is_none()).collect();
    if live.is_empty() {
        return;
    }
    let total: u64 = cfg.stakes.iter().sum();
    let live_stake: u64 = live.iter().map(|i| cfg.stakes[*i]).sum();
    let at = |t: u64, node: usize| -> u64 {
        // finalized slot of `node` at time `t` (timeline is sampled every 100 ms)
        match timeline.binary_search_by_key(&t, |x| x.0) {
            Ok(i) => timeline[i].1[node],
            Err(0) => 0,
            Err(i) => timeline[i - 1].1[node],
        }
    };

    // (d) every live correct node's finalized slot advances within every window of B after T_s.
    // Turbine forwards along a tree without redundancy: a crashed or silent inner node cuts off its
    // whole subtree (with a small fanout most of the cluster), blocks are then not disseminated and
    // every slot is skipped - that is the disseminator's design limit, not a message between correct
    // nodes arriving late. Progress is therefore demanded under Turbine only when every node is live.
    let turbine_with_faulty_relays = matches!(cfg.dissem, cluster::DissemKind::Turbine(_)) && live.len() != n;
    if turbine_with_faulty_relays {
        kernel::probe("c02_progress_not_demanded_turbine_with_faulty_relays");
    }
    let b = LIVENESS_BOUND_MS;
    if end >= ts + b && !turbine_with_faulty_relays {
        kernel::probe("c02_progress_windows_checked");
        let mut t = ts + b;
        'outer: while t <= end {
            for &i in &live {
                if at(t, i) <= at(t - b, i) {
                    kernel::violation(
                        "C02",
                        "progress:no-finalization-within-bound",
                        format!(
                            "node {i} stayed at finalized slot {} from t={} ms to t={} ms (stabilised at {ts} ms, bound {b} ms); finalized slots of all nodes at the end: {:?}",
                            at(t, i), t - b, t, timeline.last().map(|x| x.1.clone()).unwrap_or_default()
                        ),
                    );
                    break 'outer;
                }
            }
            t += 500;
        }
    }

    // (a)/(b) qualifying windows of correct live leaders
    // dissemination is only guaranteed when no relay can be faulty (or with the trivial disseminator)
    let all_live = live.len() == n;
    let dissemination_guaranteed = matches!(cfg.dissem, cluster::DissemKind::Trivial) || all_live;
    let mut qualifying = 0u64;
    // (hostile leaders also sign blocks for absurdly distant slots: those are not windows of this run)
    let max_slot = obs.first_shred_ms.keys().filter(|s| s.inner() < (1u64 << 40)).next_back().map_or(0, |s| s.inner());
    let mut w = 1u64;
    while w * 4 + 3 <= max_slot {
        let first = w * 4;
        let leader = (w % n as u64) as usize;
        w += 1;
        if !live.contains(&leader) {
            continue;
        }
        let Some(&t_l) = obs.first_shred_ms.get(&alpenglow::types::Slot::new(first)) else { continue };
        // the window starts well after stabilisation, and every live node has caught up by then
        if t_l < ts + 2_000 {
            continue;
        }
        let caught_up = live.iter().all(|i| at(t_l, *i) + 2 >= first - 1 || first <= 2);
        if !caught_up || !dissemination_guaranteed {
            continue;
        }
        // "a window that starts after stabilisation", operationally: before the leader's first shred
        // no correct node had voted on any slot of the window (votes cast before stabilisation are
        // re-broadcast by standstill recovery and would otherwise look like fresh ones), and no correct
        // node skipped a slot of the preceding window (otherwise some nodes see a ready parent - and arm
        // their timeouts for this window - long before the leader can start; DESIGN §7 C02 (iii))
        let early_vote = live.iter().any(|i| obs.votes_by_node[*i].iter().any(|v| v.slot.inner() >= first && v.slot.inner() < first + 4 && v.at_ms < t_l));
        // only skips cast before (or right at) stabilisation make the start ragged: once the network is
        // synchronous, a skipped preceding window (silent or equivocating Byzantine leader) makes every
        // node see the ready parent within the delay bound of each other, and the correct leader's
        // window that follows must still be finalized
        let prev_skipped = (0..n).filter(|i| cfg.roles[*i] == cluster::Role::Correct).any(|i| {
            obs.votes_by_node[i].iter().any(|v| v.slot.inner() + 4 >= first && v.slot.inner() < first && matches!(v.kind, "skip" | "sf") && v.at_ms < ts + 1_000)
        });
        if early_vote || prev_skipped {
            kernel::probe("c02_windows_disqualified_ragged_start");
            continue;
        }
        let deadline = t_l + 4 * 400 + WINDOW_FINALITY_SLACK_MS;
        if deadline > end {
            continue;
        }
        qualifying += 1;
        for s in first..first + 4 {
            let slot = alpenglow::types::Slot::new(s);
            // the leader did propose this block?
            if !obs.first_shred_ms.contains_key(&slot) {
                continue;
            }
            for &i in &live {
                if !obs.fin_by_node[i].contains_key(&slot) {
                    kernel::violation(
                        "C02",
                        "window:block-of-correct-leader-not-finalized",
                        format!(
                            "slot {s} (window of correct leader {leader}, first shred at {t_l} ms, stabilised at {ts} ms) is not finalized at live node {i} by the end of the run ({end} ms); skip-certified: {}",
                            obs.skip_certified.contains_key(&slot)
                        ),
                    );
                }
            }
            if obs.skip_certified.contains_key(&slot) {
                kernel::violation(
                    "C02",
                    "window:block-of-correct-leader-skipped",
                    format!("slot {s} of correct leader {leader} (first shred at {t_l} ms, stabilised at {ts} ms) received a skip certificate"),
                );
            }
            // (b) one-round finalization when >= 80 % of stake is correct and responsive.
            // Demanded only in the lockstep configuration (equal stakes, constant equal latency),
            // where one voting round is deterministic: with skewed stakes or jitter a 60 % coalition
            // can legitimately complete the two-round path before the last notar votes arrive, and
            // votors that see a finalization certificate first never cast their notar vote.
            if live_stake * 5 >= total * 4 && !profile.lockstep {
                let ff = obs.first_cert.keys().any(|(k, sl, _)| *k == crate::oracle::CertKind::FastFinal && *sl == slot);
                if ff {
                    kernel::probe("c02_fast_finalized_slots_in_qualifying_windows");
                } else {
                    kernel::probe("c02_slow_finalized_slots_in_qualifying_windows");
                }
            }
            if live_stake * 5 >= total * 4 && profile.lockstep {
                let ff = obs.first_cert.keys().any(|(k, sl, _)| *k == crate::oracle::CertKind::FastFinal && *sl == slot);
                if !ff {
                    kernel::violation(
                        "C02",
                        "window:no-fast-finalization",
                        format!("slot {s} of correct leader {leader}: {live_stake}/{total} stake is correct and responsive but no fast-finalization certificate appeared"),
                    );
                }
                kernel::probe("c02_fast_final_slots_checked");
            }
        }
    }
    kernel::probe_n("c02_qualifying_windows", qualifying);
    let _ = json!(null);
}
